(* C04 — what the reader returns for repr's text, [norm v], is eq to v when a
   NaN counts as equal to a NaN; and numbers keep their representation. *)
From verif Require Import lib.Base lib.ListX model.C03 model.C08_Value proofs.C08_Value_proofs
  model.C04 proofs.C04_text.
From verif Require model.C05 proofs.C05_float_proofs.
From Coq Require Import QArith Permutation Arith ZifyBool ZifyNat ZifyN.
Close Scope Q_scope.
Open Scope N_scope.

#[local] Ltac Zify.zify_post_hook ::= Z.to_euclidean_division_equations.

(* the two NaN tests (C05: exponent and mantissa; C08: magnitude) agree *)
Lemma nan_agree b : C05.is_nan b = f_is_nan b.
Proof.
  unfold C05.is_nan, C05.f_expo, C05.f_mant, f_is_nan, f_inf_mag, f_mag.
  change (2 ^ 52) with 4503599627370496. change (2 ^ 11) with 2048. change (2 ^ 63) with 9223372036854775808.
  lia.
Qed.

Lemma value_size_ind (P : value -> Prop) :
  (forall v, (forall w, (vsize w < vsize v)%nat -> P w) -> P v) -> forall v, P v.
Proof.
  intros H v. remember (vsize v) as n eqn:E. revert v E.
  induction n as [n IH] using lt_wf_ind. intros v E. apply H. intros w Hw. apply (IH (vsize w)); [lia|reflexivity].
Qed.

Notation dn := denan.
Definition dn_e (e : value * value) : value * value := (dn (fst e), dn (snd e)).
Definition wfd (v : value) : Prop := wfb (dn v) = true.

Lemma dn_list s l : dn (VList s l) = VList s (map dn l).
Proof. reflexivity. Qed.
Lemma dn_map m : dn (VMap m) = VMap (map dn_e m).
Proof. reflexivity. Qed.

Lemma dn_no_nan : forall v, has_nan (dn v) = false.
Proof.
  apply value_size_ind. intros v IH. destruct v as [|b|z|z|q|b|s|sub l|m|ty id]; try reflexivity.
  - cbn [denan]. destruct (f_is_nan b) eqn:E; [reflexivity|]. cbn. exact E.
  - rewrite dn_list, has_nan_list. apply not_true_is_false. intros H.
    apply existsb_exists in H as (x & Hx & Hn). apply in_map_iff in Hx as (e & <- & He).
    rewrite (IH e (vsize_list_in sub l e He)) in Hn. discriminate.
  - rewrite dn_map, has_nan_map. apply not_true_is_false. intros H.
    apply existsb_exists in H as (x & Hx & Hn). apply in_map_iff in Hx as (e & <- & He).
    destruct (vsize_map_in m e He) as [S1 S2]. unfold dn_e in Hn. cbn [fst snd] in Hn.
    rewrite (IH _ S1), (IH _ S2) in Hn. discriminate.
Qed.

Lemma wfd_refl v : wfd v -> equal (dn v) (dn v) = true.
Proof. intros W. apply equal_refl; [exact W|apply dn_no_nan]. Qed.

Lemma wfd_list_in s l x : wfd (VList s l) -> In x l -> wfd x.
Proof. unfold wfd. rewrite dn_list. intros W Hx. apply (wf_list_in s (map dn l)); [exact W|apply in_map; exact Hx]. Qed.

Lemma wfd_map_in m e : wfd (VMap m) -> In e m -> wfd (fst e) /\ wfd (snd e).
Proof.
  unfold wfd. rewrite dn_map. intros W He.
  exact (wf_map_in (map dn_e m) (dn_e e) W (in_map dn_e m e He)).
Qed.

(* ---- Equal survives the replacement of NaNs, on values that stay well formed ---- *)
Lemma eql_map_dn x : forall y,
  (forall a b, In a x -> In b y -> equal a b = true -> equal (dn a) (dn b) = true) ->
  eql x y = true -> eql (map dn x) (map dn y) = true.
Proof.
  induction x as [|p x IH]; intros [|q y] H E; cbn in *; try discriminate; auto.
  apply andb_true_iff in E as [E1 E2]. apply andb_true_iff. split; [apply H; auto|].
  apply IH; [|exact E2]. intros a b Ha Hb. apply H; auto.
Qed.

Lemma equal_dn : forall a b, wfd a -> wfd b -> equal a b = true -> equal (dn a) (dn b) = true.
Proof.
  apply (value_size_ind (fun a => forall b, wfd a -> wfd b -> equal a b = true -> equal (dn a) (dn b) = true)).
  intros a IH b Wa Wb E.
  destruct a as [|x|x|x|x|x|x|sa x|x|ta ia]; destruct b as [|y|y|y|y|y|y|sb y|y|tb ib];
    try discriminate; try exact E.
  - (* floats *)
    cbn [equal] in E. unfold f_eq in E. apply andb_true_iff in E as [E1 E3]. apply andb_true_iff in E1 as [E1 E2].
    apply negb_true_iff in E1, E2. cbn [denan]. rewrite E1, E2. cbn [equal]. unfold f_eq. rewrite E1, E2, E3. reflexivity.
  - (* lists *)
    rewrite equal_list in E. rewrite !dn_list, equal_list. apply eql_map_dn; [|exact E].
    intros p q Hp Hq. apply IH; [apply (vsize_list_in sa x p Hp)|apply (wfd_list_in sa x p Wa Hp)|apply (wfd_list_in sb y q Wb Hq)].
  - (* maps *)
    rewrite equal_map in E. apply andb_true_iff in E as [L M]. rewrite !dn_map, equal_map.
    apply andb_true_iff. split; [rewrite !map_length; exact L|].
    apply (msub_forall). intros e0 He0. apply in_map_iff in He0 as (e & <- & He).
    pose proof (proj1 (msub_forall x y) M e He) as ML.
    destruct (mlook_in_found _ _ _ ML) as (e' & He' & K & V).
    destruct (vsize_map_in x e He) as [S1 S2].
    destruct (wfd_map_in x e Wa He) as [W1 W2]. destruct (wfd_map_in y e' Wb He') as [W3 W4].
    unfold wfd in Wb. rewrite dn_map in Wb.
    apply (mlook_in wf equal_sym equal_trans _ _ _ (dn_e e')).
    + apply wfM_of. exact Wb.
    + exact W1.
    + apply wf_map_nodup. exact Wb.
    + apply in_map. exact He'.
    + cbn [dn_e fst]. apply IH; assumption.
    + cbn [dn_e snd]. apply IH; assumption.
Qed.

(* ---- re-inserting entries whose keys never match leaves the list as it is ---- *)
Lemma m_assoc_nomatch k v acc :
  (forall e, In e acc -> hm_match k (fst e) = false) -> m_assoc k v acc = acc ++ [(k, v)].
Proof.
  induction acc as [|[k' v'] acc IH]; intros H; [reflexivity|]. cbn [m_assoc].
  pose proof (H (k', v') (or_introl eq_refl)) as Hk. cbn [fst] in Hk. rewrite Hk. cbn [app]. f_equal. apply IH. intros e He. apply H. right. exact He.
Qed.

Lemma rebuild_app es : forall acc,
  (forall e' e, In e' es -> In e acc -> hm_match (fst e') (fst e) = false) ->
  ForallOrdPairs (fun e e' => hm_match (fst e') (fst e) = false) es ->
  fold_left (fun acc e => m_assoc (fst e) (snd e) acc) es acc = acc ++ es.
Proof.
  induction es as [|a es IH]; intros acc H1 H2; [rewrite app_nil_r; reflexivity|]. cbn [fold_left].
  inversion H2 as [|? ? Ha H2']; subst.
  rewrite m_assoc_nomatch by (intros e He; apply H1; [left; reflexivity|exact He]).
  rewrite IH; [rewrite <- app_assoc; destruct a; reflexivity| |exact H2'].
  intros e' e He' He. apply in_app_iff in He as [He|[<-|[]]].
  - apply H1; [right; exact He'|exact He].
  - destruct a as [ka va]. cbn [fst]. rewrite Forall_forall in Ha. apply (Ha e' He').
Qed.

Lemma rebuild_id es :
  ForallOrdPairs (fun e e' => hm_match (fst e') (fst e) = false) es -> rebuild es = es.
Proof. intros H. unfold rebuild. rewrite rebuild_app; [reflexivity|intros ? ? ? []|exact H]. Qed.

(* ---- keys without duplicates ---- *)
Lemma nodupk_In x :
  nodupk x = true -> wfM x -> (forall e, In e x -> equal (fst e) (fst e) = true) ->
  forall e e', In e x -> In e' x -> equal (fst e) (fst e') = true -> e = e'.
Proof.
  induction x as [|a x IH]; intros N W R e e' He He' E; [destruct He|].
  assert (N' : nodupk x = true) by (cbn in N; apply andb_true_iff in N; tauto).
  assert (W' : wfM x) by (intros z Hz; apply W; right; exact Hz).
  destruct He as [<-|He]; destruct He' as [<-|He']; try reflexivity.
  - rewrite (nodupk_not_in a x e' N He') in E. discriminate.
  - exfalso. pose proof (nodupk_not_in a x e N He) as F.
    rewrite (equal_sym (fst e) (fst a)) in F; [discriminate| | |exact E].
    + apply W. right. exact He.
    + apply W. left. reflexivity.
  - apply IH; auto. intros z Hz. apply R. right. exact Hz.
Qed.

Lemma nodupk_NoDup {A} (g : A -> value * value) (l : list A) :
  nodupk (map g l) = true -> (forall a, In a l -> equal (fst (g a)) (fst (g a)) = true) -> NoDup l.
Proof.
  induction l as [|a l IH]; intros N R; [constructor|]. cbn [map nodupk] in N.
  apply andb_true_iff in N as [N1 N2]. constructor.
  - intros Ha. apply negb_true_iff in N1.
    assert (existsb (fun e' => equal (fst (g a)) (fst e')) (map g l) = true); [|congruence].
    apply existsb_exists. exists (g a). split; [apply in_map; exact Ha|apply R; left; reflexivity].
  - apply IH; [exact N2|]. intros b Hb. apply R. right. exact Hb.
Qed.

Lemma nodupk_of_inj {A} (g : A -> value * value) (l : list A) :
  NoDup l -> (forall a b, In a l -> In b l -> equal (fst (g a)) (fst (g b)) = true -> a = b) ->
  nodupk (map g l) = true.
Proof.
  induction l as [|a l IH]; intros ND H; [reflexivity|]. inversion ND as [|? ? Na ND']; subst.
  cbn [map nodupk]. apply andb_true_iff. split.
  - apply negb_true_iff. apply not_true_is_false. intros E. apply existsb_exists in E as (e' & He' & E).
    apply in_map_iff in He' as (b & <- & Hb). apply Na.
    rewrite (H a b (or_introl eq_refl) (or_intror Hb) E). exact Hb.
  - apply IH; [exact ND'|]. intros x y Hx Hy. apply H; right; assumption.
Qed.

Lemma fop_of_inj {A} (R : A -> A -> bool) (l : list A) :
  NoDup l -> (forall a b, In a l -> In b l -> R a b = true -> a = b) ->
  ForallOrdPairs (fun a b => R b a = false) l.
Proof.
  induction l as [|a l IH]; intros ND H; [constructor|]. inversion ND as [|? ? Na ND']; subst.
  constructor.
  - apply Forall_forall. intros b Hb. apply not_true_is_false. intros E. apply Na.
    rewrite <- (H b a (or_intror Hb) (or_introl eq_refl) E). exact Hb.
  - apply IH; [exact ND'|]. intros x y Hx Hy. apply H; right; assumption.
Qed.

Lemma fop_map {A B} (f : A -> B) (R : B -> B -> Prop) l :
  ForallOrdPairs (fun a b => R (f a) (f b)) l -> ForallOrdPairs R (map f l).
Proof.
  induction 1 as [|a l Ha _ IH]; [constructor|]. cbn [map]. constructor; [|exact IH].
  apply Forall_map. exact Ha.
Qed.

(* in a well-formed map two entries whose keys are eq (NaN by kind) are one entry *)
Lemma wfd_keys_distinct m : wfd (VMap m) ->
  forall e e', In e m -> In e' m -> equal (dn (fst e)) (dn (fst e')) = true -> e = e'.
Proof.
  intros W. pose proof W as W0. unfold wfd in W0. rewrite dn_map in W0.
  pose proof (wf_map_nodup _ W0) as N0. pose proof (wfM_of _ W0) as M0.
  assert (R0 : forall e, In e m -> equal (dn (fst e)) (dn (fst e)) = true).
  { intros e He. apply wfd_refl. apply (wfd_map_in m e W He). }
  intros e e' He He' E.
  assert (X : dn_e e = dn_e e').
  { apply (nodupk_In (map dn_e m) N0 M0); [|apply in_map; exact He|apply in_map; exact He'|exact E].
    intros z Hz. apply in_map_iff in Hz as (a & <- & Ha). apply R0. exact Ha. }
  clear - X He He' N0 R0. induction m as [|a m' IHm]; [destruct He|].
  cbn [map nodupk] in N0. apply andb_true_iff in N0 as [N1 N2]. apply negb_true_iff in N1.
  assert (Q : forall z, In z m' -> dn_e z = dn_e a -> False).
  { intros z Hz Ez. assert (existsb (fun e'0 => equal (fst (dn_e a)) (fst e'0)) (map dn_e m') = true); [|congruence].
    apply existsb_exists. exists (dn_e z). split; [apply in_map; exact Hz|]. rewrite Ez. apply R0. left. reflexivity. }
  destruct He as [<-|He]; destruct He' as [<-|He']; try reflexivity.
  - exfalso. apply (Q e' He'). symmetry. exact X.
  - exfalso. apply (Q e He). exact X.
  - apply IHm; auto. intros z Hz. apply R0. right. exact Hz.
Qed.

(* ------------------------------------------------------------------ *)
Section Sem.
Variable is_print : N -> bool.
Variable pf : bytes -> option N.
Variable fmtF fmtE : N -> bytes.
Variable rk : N -> Z.
Hypothesis nan_is_nan : exists b', pf C05.sNaN = Some b' /\ C05.is_nan b' = true.   (* contract S2_nan *)

Notation norm := (C04.norm is_print pf fmtF fmtE rk).
Notation repr := (C04.repr is_print fmtF fmtE rk).
Definition nrm_e (ind : Z) (e : value * value) : value * value :=
  (norm (fst e) (ind + 1), norm (snd e) (ind + 2)).

Definition Good (v : value) (ind : Z) : Prop := wfd (norm v ind) /\ equal (dn v) (dn (norm v ind)) = true.

Lemma eql_pointwise i l : (forall e, In e l -> equal (dn e) (dn (norm e i)) = true) ->
  eql (map dn l) (map dn (map (fun e => norm e i) l)) = true.
Proof.
  induction l as [|e l IH]; intros H; [reflexivity|]. cbn [map eql].
  rewrite (H e (or_introl eq_refl)). cbn [andb]. apply IH. intros x Hx. apply H. right. exact Hx.
Qed.

Theorem norm_good : forall v, okv v = true -> wfd v -> forall ind, Good v ind.
Proof.
  apply (value_size_ind (fun v => okv v = true -> wfd v -> forall ind, Good v ind)).
  intros v IH Hok W ind. unfold Good.
  destruct v as [|b|z|z|q|b|s|sub l|m|ty id]; try (split; [exact W|apply (wfd_refl _ W)]).
  - (* float *)
    cbn [C04.norm]. destruct (C05.is_nan b) eqn:NB.
    + destruct nan_is_nan as (b' & EP & N'). rewrite EP. rewrite nan_agree in NB, N'.
      unfold wfd. cbn [denan]. rewrite NB, N'. split; reflexivity.
    + split; [exact W|apply (wfd_refl _ W)].
  - (* list *)
    assert (IHe : forall e, In e l -> Good e (ind + 1)).
    { intros e He. cbn [okv] in Hok. rewrite forallb_forall in Hok.
      apply IH; [apply (vsize_list_in sub l e He)|apply Hok; exact He|apply (wfd_list_in sub l e W He)]. }
    cbn [C04.norm]. split.
    + unfold wfd. rewrite dn_list, wfb_list. apply forallb_forall. intros x Hx.
      apply in_map_iff in Hx as (y & <- & Hy). apply in_map_iff in Hy as (e & <- & He). apply IHe. exact He.
    + rewrite !dn_list, equal_list. apply eql_pointwise. intros e He. apply IHe. exact He.
  - (* map *)
    assert (IHe : forall e, In e m -> Good (fst e) (ind + 1) /\ Good (snd e) (ind + 2)).
    { intros e He. cbn [okv] in Hok. rewrite forallb_forall in Hok. specialize (Hok e He).
      apply andb_true_iff in Hok as [O1 O2]. destruct (vsize_map_in m e He) as [S1 S2].
      destruct (wfd_map_in m e W He) as [W1 W2]. split; apply IH; assumption. }
    cbn [C04.norm].
    pose proof (isort_dec rk (fun k : value => repr k (ind + 1))
                  (fun e : value * value => (norm (fst e) (ind + 1), norm (snd e) (ind + 2))) m) as E2.
    cbn beta in E2. rewrite E2. clear E2.
    set (sm := sorted_entries rk (fun k : value => repr k (ind + 1)) m).
    rewrite map_map. cbn [snd].
    change (map (fun x : value * value => (norm (fst x) (ind + 1), norm (snd x) (ind + 2))) sm) with (map (nrm_e ind) sm).
    assert (Pm : Permutation m sm) by apply sorted_entries_perm.
    assert (Hin : forall e, In e sm -> In e m) by (intros e; apply sorted_entries_in).
    (* facts about the original keys *)
    pose proof W as W0. unfold wfd in W0. rewrite dn_map in W0.
    pose proof (wf_map_nodup _ W0) as N0. pose proof (wfM_of _ W0) as M0.
    assert (R0 : forall e, In e m -> equal (dn (fst e)) (dn (fst e)) = true).
    { intros e He. apply wfd_refl. apply (wfd_map_in m e W He). }
    assert (ND : NoDup sm).
    { eapply Permutation_NoDup; [exact Pm|]. apply (nodupk_NoDup dn_e m N0). intros a Ha. apply R0. exact Ha. }
    assert (KD : forall e e', In e m -> In e' m -> equal (dn (fst e)) (dn (fst e')) = true -> e = e').
    { intros e e' He He' E.
      assert (X : dn_e e = dn_e e').
      { apply (nodupk_In (map dn_e m) N0 M0); [|apply in_map; exact He|apply in_map; exact He'|exact E].
        intros z Hz. apply in_map_iff in Hz as (a & <- & Ha). apply R0. exact Ha. }
      (* equal images at two positions of a duplicate-free key list: same position *)
      clear - X He He' N0 R0. induction m as [|a m' IHm]; [destruct He|].
      cbn [map nodupk] in N0. apply andb_true_iff in N0 as [N1 N2]. apply negb_true_iff in N1.
      assert (Q : forall z, In z m' -> dn_e z = dn_e a -> False).
      { intros z Hz Ez. assert (existsb (fun e'0 => equal (fst (dn_e a)) (fst e'0)) (map dn_e m') = true); [|congruence].
        apply existsb_exists. exists (dn_e z). split; [apply in_map; exact Hz|]. rewrite Ez. apply R0. left. reflexivity. }
      destruct He as [<-|He]; destruct He' as [<-|He']; try reflexivity.
      - exfalso. apply (Q e' He'). symmetry. exact X.
      - exfalso. apply (Q e He). exact X.
      - apply IHm; auto. intros z Hz. apply R0. right. exact Hz. }
    (* distinct entries keep distinct keys after norm *)
    assert (KN : forall e e', In e sm -> In e' sm ->
                  equal (dn (norm (fst e) (ind + 1))) (dn (norm (fst e') (ind + 1))) = true -> e = e').
    { intros e e' He He' E. apply Hin in He, He'. apply KD; try assumption.
      destruct (IHe e He) as [[Wa Ea] _]. destruct (IHe e' He') as [[Wb Eb] _].
      destruct (wfd_map_in m e W He) as [W1 _]. destruct (wfd_map_in m e' W He') as [W2 _].
      apply (equal_trans _ (dn (norm (fst e) (ind + 1)))); try assumption.
      apply (equal_trans _ (dn (norm (fst e') (ind + 1)))); try assumption.
      apply equal_sym; assumption. }
    (* no replacement when the entries are inserted again *)
    assert (RB : rebuild (map (nrm_e ind) sm) = map (nrm_e ind) sm).
    { apply rebuild_id. apply (fop_map (nrm_e ind) (fun e e' => hm_match (fst e') (fst e) = false)).
      apply (fop_of_inj (fun a b => hm_match (fst (nrm_e ind a)) (fst (nrm_e ind b))) sm ND).
      intros a b Ha Hb E. apply KN; try assumption. unfold hm_match in E. apply andb_true_iff in E as [_ E].
      cbn [nrm_e fst] in E. apply equal_dn; [apply (IHe a (Hin a Ha))|apply (IHe b (Hin b Hb))|exact E]. }
    rewrite RB.
    assert (NY : nodupk (map dn_e (map (nrm_e ind) sm)) = true).
    { rewrite map_map. apply (nodupk_of_inj (fun e => dn_e (nrm_e ind e)) sm ND). intros a b Ha Hb E. apply KN; assumption. }
    assert (WY : wfb (VMap (map dn_e (map (nrm_e ind) sm))) = true).
    { rewrite wfb_map, NY, andb_true_r. apply forallb_forall. intros x Hx.
      apply in_map_iff in Hx as (y & <- & Hy). apply in_map_iff in Hy as (e & <- & He).
      destruct (IHe e (Hin e He)) as [[Wa _] [Wb _]]. unfold wfd in Wa, Wb. cbn [dn_e nrm_e fst snd].
      rewrite Wa, Wb. reflexivity. }
    split.
    + unfold wfd. rewrite dn_map. exact WY.
    + rewrite !dn_map, equal_map. apply andb_true_iff. split.
      * rewrite !map_length. unfold sm. rewrite sorted_entries_length. apply Nat.eqb_refl.
      * apply msub_forall. intros e0 He0. apply in_map_iff in He0 as (e & <- & He).
        destruct (IHe e He) as [[_ Ea] [_ Eb]]. destruct (wfd_map_in m e W He) as [W1 _].
        apply (mlook_in wf equal_sym equal_trans _ _ _ (dn_e (nrm_e ind e))).
        -- apply wfM_of. exact WY.
        -- exact W1.
        -- exact NY.
        -- apply in_map, in_map. eapply Permutation_in; [exact Pm|exact He].
        -- exact Ea.
        -- exact Eb.
Qed.

(* numbers keep their representation; a NaN stays a NaN *)
Theorem norm_keeps_number v : okv v = true ->
  match v with
  | VInt _ | VBig _ | VRat _ => forall ind, norm v ind = v
  | VFloat b => forall ind, if C05.is_nan b then exists b', norm v ind = VFloat b' /\ C05.is_nan b' = true
                else norm v ind = v
  | _ => forall ind, num_type (norm v ind) = None
  end.
Proof.
  intros _. destruct v; intros ind; try reflexivity.
  cbn [C04.norm]. destruct (C05.is_nan bits) eqn:NB; [|reflexivity].
  destruct nan_is_nan as (b' & EP & N'). rewrite EP. exists b'. split; [reflexivity|exact N'].
Qed.

Lemma norm_num_type v ind : num_type (norm v ind) = num_type v.
Proof.
  destruct v; try reflexivity. cbn [C04.norm].
  destruct (C05.is_nan bits); [destruct (pf C05.sNaN)|]; reflexivity.
Qed.

End Sem.
