(* C41 -- proofs about model/C41.v, part 1: prefix/suffix/index, split/join,
   replace, repeat, code points, bytes, QuoteMeta and the literal fragment. *)
From verif Require Import lib.Base lib.ListX lib.Utf8 lib.Utf8_proofs model.C41.
From Coq Require Import ZifyBool ZifyNat ZifyN.
Open Scope nat_scope.

(* ------------------------------------------------------------------ *)
(* prefix, suffix *)

Lemma has_prefix_iff s p : has_prefix s p = true <-> exists t, s = p ++ t.
Proof.
  revert s; induction p as [|b p IH]; intros s; cbn [has_prefix].
  - split; [intros _; exists s; reflexivity | reflexivity].
  - destruct s as [|c s].
    + split; [discriminate | intros [t H]; discriminate].
    + rewrite andb_true_iff, N.eqb_eq, IH. split.
      * intros [-> [t ->]]. exists t. reflexivity.
      * intros [t H]. cbn in H. inversion H; subst. split; [reflexivity | exists t; reflexivity].
Qed.

Lemma has_suffix_iff s p : has_suffix s p = true <-> exists t, s = t ++ p.
Proof.
  unfold has_suffix. rewrite has_prefix_iff. split.
  - intros [t H]. exists (rev t). apply (f_equal (@rev N)) in H.
    rewrite rev_involutive, rev_app_distr, rev_involutive in H. exact H.
  - intros [t ->]. exists (rev t). apply rev_app_distr.
Qed.

Lemma prefix_firstn (s p : bytes) : (exists t, s = p ++ t) <-> firstn (length p) s = p.
Proof.
  split.
  - intros [t ->]. rewrite firstn_app, Nat.sub_diag, firstn_all. cbn. apply app_nil_r.
  - intros H. exists (skipn (length p) s). rewrite <- H at 1. symmetry; apply firstn_skipn.
Qed.

Lemma has_prefix_spec s p : has_prefix s p = is_prefix_spec s p.
Proof.
  unfold is_prefix_spec. apply eq_true_iff_eq.
  rewrite has_prefix_iff, prefix_firstn, bytes_eqb_spec. reflexivity.
Qed.

Lemma suffix_skipn (s p : bytes) :
  (exists t, s = t ++ p) <-> length p <= length s /\ skipn (length s - length p) s = p.
Proof.
  split.
  - intros [t ->]. rewrite app_length. split; [lia|].
    replace (length t + length p - length p) with (length t) by lia.
    rewrite skipn_app, Nat.sub_diag, skipn_all. reflexivity.
  - intros [L H]. exists (firstn (length s - length p) s). rewrite <- H at 2.
    symmetry; apply firstn_skipn.
Qed.

Lemma has_suffix_spec s p : has_suffix s p = is_suffix_spec s p.
Proof.
  unfold is_suffix_spec. apply eq_true_iff_eq.
  rewrite has_suffix_iff, suffix_skipn, andb_true_iff, Nat.leb_le, bytes_eqb_spec. reflexivity.
Qed.

Lemma trim_prefix_is_spec s p : trim_prefix s p = trim_prefix_spec s p.
Proof. unfold trim_prefix, trim_prefix_spec. rewrite has_prefix_spec. reflexivity. Qed.

Lemma trim_suffix_is_spec s p : trim_suffix s p = trim_suffix_spec s p.
Proof. unfold trim_suffix, trim_suffix_spec. rewrite has_suffix_spec. reflexivity. Qed.

Lemma trim_prefix_def s p :
  (has_prefix s p = true -> p ++ trim_prefix s p = s)
  /\ (has_prefix s p = false -> trim_prefix s p = s).
Proof.
  unfold trim_prefix. split; intros H; rewrite H; [|reflexivity].
  apply has_prefix_iff in H as [t ->].
  rewrite skipn_app, Nat.sub_diag, skipn_all. reflexivity.
Qed.

Lemma trim_suffix_def s p :
  (has_suffix s p = true -> trim_suffix s p ++ p = s)
  /\ (has_suffix s p = false -> trim_suffix s p = s).
Proof.
  unfold trim_suffix. split; intros H; rewrite H; [|reflexivity].
  apply has_suffix_iff in H as [t ->]. rewrite app_length.
  replace (length t + length p - length p) with (length t) by lia.
  rewrite firstn_app, Nat.sub_diag, firstn_all. cbn. rewrite app_nil_r. reflexivity.
Qed.

(* ------------------------------------------------------------------ *)
(* Index *)

Lemma index_nil sub : index [] sub = if has_prefix [] sub then Some 0 else None.
Proof. reflexivity. Qed.
Lemma index_cons c r sub :
  index (c :: r) sub = if has_prefix (c :: r) sub then Some 0 else option_map S (index r sub).
Proof. reflexivity. Qed.

(* the answer is an occurrence, and the first one *)
Lemma index_some s sub : forall m, index s sub = Some m ->
  m <= length s /\ has_prefix (skipn m s) sub = true
  /\ forall j, j < m -> has_prefix (skipn j s) sub = false.
Proof.
  induction s as [|c r IH]; intros m.
  - rewrite index_nil. destruct (has_prefix [] sub) eqn:P; [|discriminate].
    intros [= <-]. cbn. split; [lia|]. split; [exact P | intros j Hj; lia].
  - rewrite index_cons. destruct (has_prefix (c :: r) sub) eqn:P.
    + intros [= <-]. split; [cbn; lia|]. split; [exact P | intros j Hj; lia].
    + destruct (index r sub) as [m'|] eqn:I; [|discriminate]. cbn. intros [= <-].
      destruct (IH m' eq_refl) as (L & O & F). split; [cbn; lia|]. split; [exact O|].
      intros [|j] Hj; [exact P | cbn; apply F; lia].
Qed.

Lemma index_none s sub : index s sub = None ->
  forall j, j <= length s -> has_prefix (skipn j s) sub = false.
Proof.
  induction s as [|c r IH].
  - rewrite index_nil. destruct (has_prefix [] sub) eqn:P; [discriminate|].
    intros _ j Hj. cbn in Hj. replace j with 0 by lia. exact P.
  - rewrite index_cons. destruct (has_prefix (c :: r) sub) eqn:P; [discriminate|].
    destruct (index r sub) eqn:I; [discriminate|]. intros _ [|j] Hj; [exact P|].
    cbn. apply IH; [reflexivity | cbn in Hj; lia].
Qed.

(* the cut an occurrence makes *)
Lemma index_cut s sub m : index s sub = Some m ->
  s = firstn m s ++ sub ++ skipn (m + length sub) s /\ m + length sub <= length s.
Proof.
  intros H. destruct (index_some s sub m H) as (L & O & _).
  apply has_prefix_iff in O as [t E].
  assert (T : t = skipn (m + length sub) s).
  { rewrite <- skipn_skipn, E, skipn_app, Nat.sub_diag, skipn_all. reflexivity. }
  split.
  - rewrite <- T, <- E. symmetry; apply firstn_skipn.
  - apply (f_equal (@length N)) in E. rewrite skipn_length, app_length in E. lia.
Qed.

(* ------------------------------------------------------------------ *)
(* Join after Split *)

Lemma join_cons_ne sep x l : l <> [] -> join sep (x :: l) = x ++ sep ++ join sep l.
Proof. destruct l; [congruence | reflexivity]. Qed.

Lemma splitn_fuel_ne f k sep s : splitn_fuel f k sep s <> [].
Proof.
  destruct f; cbn [splitn_fuel]; [discriminate|].
  destruct (is_zero k); [discriminate|]. destruct (index s sep); discriminate.
Qed.

(* whatever the fuel and the limit: joining gives the string back *)
Lemma join_splitn f : forall k sep s, join sep (splitn_fuel f k sep s) = s.
Proof.
  induction f as [|f IH]; intros k sep s; cbn [splitn_fuel]; [reflexivity|].
  destruct (is_zero k); [reflexivity|].
  destruct (index s sep) as [m|] eqn:I; [|reflexivity].
  rewrite join_cons_ne by apply splitn_fuel_ne. rewrite IH.
  symmetry. apply (index_cut s sep m I).
Qed.

Lemma join_nil_concat l : join [] l = concat l.
Proof.
  induction l as [|x l IH]; [reflexivity|]. destruct l as [|y l]; [cbn; symmetry; apply app_nil_r|].
  rewrite join_cons_ne by discriminate. rewrite IH. reflexivity.
Qed.

Lemma concat_explode f : forall k s, concat (explode_fuel f k s) = s.
Proof.
  induction f as [|f IH]; intros k s; destruct s as [|c r]; cbn [explode_fuel]; try reflexivity.
  - cbn. rewrite app_nil_r. reflexivity.
  - destruct (is_zero k); [cbn; rewrite app_nil_r; reflexivity|].
    cbn [concat]. rewrite IH. apply firstn_skipn.
Qed.

Lemma join_split max sep s : max <> 0%Z -> join sep (str_split max sep s) = s.
Proof.
  intros H. unfold str_split. destruct (Z.eqb_spec max 0); [contradiction|].
  destruct sep as [|b sep]; [rewrite join_nil_concat; apply concat_explode | apply join_splitn].
Qed.

(* the fuel the wrapper passes is enough: any larger fuel gives the same pieces *)
Lemma splitn_fuel_enough f : forall g k sep s, sep <> [] ->
  length s < f -> length s < g -> splitn_fuel f k sep s = splitn_fuel g k sep s.
Proof.
  induction f as [|f IH]; intros g k sep s Hs Lf Lg; [lia|].
  destruct g as [|g]; [lia|]. cbn [splitn_fuel].
  destruct (is_zero k); [reflexivity|].
  destruct (index s sep) as [m|] eqn:I; [|reflexivity].
  destruct (index_cut s sep m I) as (_ & L).
  assert (0 < length sep) by (destruct sep; [congruence | cbn; lia]).
  f_equal. apply IH; [exact Hs | rewrite skipn_length; lia | rewrite skipn_length; lia].
Qed.

(* with the empty separator and no limit the pieces are the encoded runes *)
Lemma explode_valid f : forall s, length s <= f -> valid s = true ->
  explode_fuel f None s = map encode_rune (decode_all s).
Proof.
  induction f as [|f IH]; intros s L V; destruct s as [|c r]; try reflexivity; [cbn in L; lia|].
  cbn [explode_fuel is_zero dec option_map].
  assert (Hne : c :: r <> []) by discriminate.
  rewrite (decode_all_step _ Hne). cbn [map].
  pose proof (valid_step _ Hne) as VS. rewrite V in VS.
  destruct (decode_rune (c :: r)) as [rn w] eqn:D. cbn [fst snd] in *.
  destruct ((rn =? RuneError)%N && Nat.eqb w 1) eqn:B; [discriminate|].
  assert (Hok : rn <> RuneError \/ w <> 1).
  { apply andb_false_iff in B as [B|B]; [left; apply N.eqb_neq; exact B | right; apply Nat.eqb_neq; exact B]. }
  rewrite (encode_decode _ _ _ D Hne Hok). f_equal.
  apply IH; [|symmetry; exact VS].
  pose proof (skipn_width_shorter _ Hne) as SW. rewrite D in SW. cbn [snd] in SW. cbn [length] in *. lia.
Qed.

Lemma split_empty_sep_per_rune max s : (max < 0)%Z -> valid s = true ->
  str_split max [] s = map encode_rune (decode_all s).
Proof.
  intros H V. unfold str_split, cuts_of. destruct (Z.eqb_spec max 0); [lia|].
  destruct (Z.ltb_spec max 0); [|lia]. apply explode_valid; [lia | exact V].
Qed.

(* ------------------------------------------------------------------ *)
(* Replace is Split then Join with the new string (no limit) *)

Lemma replace_is_join_split f : forall old new s,
  replace_fuel f None old new s = join new (splitn_fuel f None old s).
Proof.
  induction f as [|f IH]; intros old new s; cbn [replace_fuel splitn_fuel is_zero dec option_map];
    [reflexivity|].
  destruct (index s old) as [m|]; [|reflexivity].
  rewrite join_cons_ne by apply splitn_fuel_ne. rewrite IH. reflexivity.
Qed.

Lemma str_replace_is_join_split max old new s : (max < 0)%Z -> old <> [] ->
  str_replace max old new s = join new (str_split max old s).
Proof.
  intros H Ho. unfold str_replace, str_split, repls_of, cuts_of.
  destruct (Z.eqb_spec max 0); [lia|]. destruct (Z.ltb_spec max 0); [|lia].
  destruct old; [congruence|]. apply replace_is_join_split.
Qed.

(* ------------------------------------------------------------------ *)
(* Repeat *)

Lemma repeat_n_length n s : length (repeat_n n s) = n * length s.
Proof. induction n as [|n IH]; [reflexivity|]. cbn [repeat_n]. rewrite app_length, IH. lia. Qed.

Lemma repeat_n_concat n s : repeat_n n s = concat (repeat s n).
Proof. induction n as [|n IH]; [reflexivity|]. cbn. rewrite IH. reflexivity. Qed.

Lemma repeat_n_add n m s : repeat_n (n + m) s = repeat_n n s ++ repeat_n m s.
Proof. induction n as [|n IH]; [reflexivity|]. cbn. rewrite IH. apply app_assoc. Qed.

Lemma repeat_n_nil n : repeat_n n [] = [].
Proof. induction n as [|n IH]; [reflexivity | exact IH]. Qed.

(* the wrapper's overflow test is exact: it fires iff the true product exceeds MaxInt *)
Lemma repeat_test_exact len n : (0 < len)%Z ->
  (maxInt / len <? n)%Z = (two63 <=? len * n)%Z.
Proof.
  intros Hl. unfold maxInt.
  destruct (Z.ltb_spec ((two63 - 1) / len) n) as [H|H];
    destruct (Z.leb_spec two63 (len * n)) as [G|G]; try reflexivity; exfalso.
  - assert (n <= (two63 - 1) / len)%Z by (apply Z.div_le_lower_bound; lia). lia.
  - assert ((two63 - 1) / len < n)%Z by (apply Z.div_lt_upper_bound; lia). lia.
Qed.

(* the result is n copies whenever the true product fits an int *)
Lemma str_repeat_fits s n : (0 <= n)%Z -> (Z.of_nat (length s) * n < two63)%Z ->
  str_repeat s n = ROk (repeat_n (Z.to_nat n) s).
Proof.
  intros Hn Hp. unfold str_repeat.
  destruct (Z.ltb_spec n 0); [lia|].
  destruct (Z.ltb_spec 0 (Z.of_nat (length s))) as [L|L]; cbn [andb].
  - rewrite repeat_test_exact by exact L.
    destruct (Z.leb_spec two63 (Z.of_nat (length s) * n)); [lia|].
    destruct s; [cbn in L; lia | reflexivity].
  - destruct s; [cbn [is_nil]; rewrite repeat_n_nil; reflexivity | cbn in L; lia].
Qed.

Lemma str_repeat_negative s n : (n < 0)%Z -> str_repeat s n = RBadValue.
Proof. intros H. unfold str_repeat. destruct (Z.ltb_spec n 0); [reflexivity | lia]. Qed.

(* a product that does not fit is refused *)
Lemma str_repeat_too_large s n : (0 <= n)%Z -> (two63 <= Z.of_nat (length s) * n)%Z ->
  str_repeat s n = RBadValue.
Proof.
  intros Hn Hp. unfold str_repeat. destruct (Z.ltb_spec n 0); [lia|].
  destruct (Z.ltb_spec 0 (Z.of_nat (length s))) as [L|L]; cbn [andb].
  - rewrite repeat_test_exact by exact L.
    destruct (Z.leb_spec two63 (Z.of_nat (length s) * n)); [reflexivity | lia].
  - assert (Z.of_nat (length s) = 0)%Z by lia. unfold two63 in Hp. lia.
Qed.

(* no Go panic escapes: the answer is a string or the bad-value exception *)
Lemma str_repeat_never_panics s n :
  (exists b, str_repeat s n = ROk b) \/ str_repeat s n = RBadValue.
Proof.
  unfold str_repeat. destruct (n <? 0)%Z; [right; reflexivity|].
  destruct ((0 <? Z.of_nat (length s))%Z && (maxInt / Z.of_nat (length s) <? n)%Z);
    [right; reflexivity|].
  left. destruct (is_nil s); eexists; reflexivity.
Qed.

(* ------------------------------------------------------------------ *)
(* code points *)

Lemma decode_all_fuel_valid_runes f : forall s,
  Forall (fun r => valid_rune r = true) (decode_all_fuel f s).
Proof.
  induction f as [|f IH]; intros s; cbn [decode_all_fuel]; [constructor|].
  destruct s as [|c r]; [constructor|].
  pose proof (decode_rune_valid_rune (c :: r)) as V.
  destruct (decode_rune (c :: r)) as [rn w]. constructor; [exact V | apply IH].
Qed.

Lemma decode_all_valid_runes s : Forall (fun r => valid_rune r = true) (decode_all s).
Proof. apply decode_all_fuel_valid_runes. Qed.

Lemma valid_rune_le r : valid_rune r = true -> (r <= MaxRune)%N.
Proof. unfold valid_rune. intros H. apply andb_true_iff in H as [H _]. apply N.leb_le; exact H. Qed.

Lemma from_codepoints_encode rs : Forall (fun r => valid_rune r = true) rs ->
  from_codepoints (map Z.of_N rs) = ROk (encode_all rs).
Proof.
  induction 1 as [|r rs V _ IH]; [reflexivity|].
  cbn [map from_codepoints]. pose proof (valid_rune_le r V) as L.
  destruct (Z.ltb_spec (Z.of_N r) 0); [lia|].
  destruct (Z.ltb_spec (Z.of_N MaxRune) (Z.of_N r)); [lia|].
  cbn [orb]. rewrite N2Z.id, V, IH. reflexivity.
Qed.

(* to-codepoints never yields something from-codepoints refuses *)
Lemma from_to_codepoints s : from_codepoints (to_codepoints s) = ROk (encode_all (decode_all s)).
Proof. apply from_codepoints_encode, decode_all_valid_runes. Qed.

Lemma codepoints_roundtrip s : valid s = true -> from_codepoints (to_codepoints s) = ROk s.
Proof. intros V. rewrite from_to_codepoints, encode_all_decode_all by exact V. reflexivity. Qed.

Lemma from_codepoints_ok nums : forall b, from_codepoints nums = ROk b ->
  to_codepoints b = nums /\ valid b = true
  /\ Forall (fun n => (0 <= n <= Z.of_N MaxRune)%Z /\ is_surrogate (Z.to_N n) = false) nums.
Proof.
  induction nums as [|n r IH]; intros b; cbn [from_codepoints].
  - intros [= <-]. split; [reflexivity|]. split; [reflexivity | constructor].
  - destruct (Z.ltb_spec n 0); [discriminate|].
    destruct (Z.ltb_spec (Z.of_N MaxRune) n); [discriminate|]. cbn [orb].
    destruct (valid_rune (Z.to_N n)) eqn:V; [|discriminate]. cbn [negb].
    destruct (from_codepoints r) as [b'| | | |] eqn:F; try discriminate.
    intros [= <-]. destruct (IH b' eq_refl) as (T & Vb & Fa).
    unfold to_codepoints in *. rewrite decode_all_encode_app by exact V.
    cbn [map]. rewrite T, Z2N.id by lia. split; [reflexivity|]. split.
    + rewrite valid_encode_app by exact V. exact Vb.
    + constructor; [|exact Fa]. split; [lia|].
      unfold valid_rune in V. apply andb_true_iff in V as [_ V]. apply negb_true_iff in V. exact V.
Qed.

Lemma from_codepoints_surrogate n : (55296 <= n <= 57343)%Z -> from_codepoints [n] = RBadValue.
Proof.
  intros H. cbn [from_codepoints]. unfold MaxRune.
  destruct (Z.ltb_spec n 0); [lia|]. destruct (Z.ltb_spec (Z.of_N 1114111) n); [lia|]. cbn [orb].
  replace (valid_rune (Z.to_N n)) with false; [reflexivity|].
  symmetry. unfold valid_rune, is_surrogate. apply andb_false_iff. right. apply negb_false_iff.
  apply andb_true_iff. split; apply N.leb_le; lia.
Qed.

Lemma from_codepoints_out_of_range n : (n < 0 \/ 1114111 < n)%Z -> from_codepoints [n] = ROutOfRange.
Proof.
  intros H. cbn [from_codepoints]. unfold MaxRune.
  destruct (Z.ltb_spec n 0); [reflexivity|]. destruct (Z.ltb_spec (Z.of_N 1114111) n); [reflexivity|lia].
Qed.

(* ------------------------------------------------------------------ *)
(* bytes *)

Lemma map_to_of_N (s : bytes) : map Z.to_N (map Z.of_N s) = s.
Proof. induction s as [|b s IH]; [reflexivity|]. cbn. rewrite N2Z.id, IH. reflexivity. Qed.

Lemma utf8_bytes_roundtrip s : Forall (fun b => (b < 256)%N) s -> valid s = true ->
  from_utf8_bytes (to_utf8_bytes s) = ROk s.
Proof.
  intros B V. unfold from_utf8_bytes, to_utf8_bytes.
  replace (existsb _ (map Z.of_N s)) with false.
  - rewrite map_to_of_N, V. reflexivity.
  - symmetry. clear V. induction B as [|b s Hb _ IH]; [reflexivity|]. cbn [map existsb].
    rewrite IH. destruct (Z.ltb_spec (Z.of_N b) 0); [lia|]. destruct (Z.ltb_spec 255 (Z.of_N b)); [lia|].
    reflexivity.
Qed.

Lemma from_utf8_bytes_ok nums b : from_utf8_bytes nums = ROk b ->
  to_utf8_bytes b = nums /\ valid b = true /\ Forall (fun n => (0 <= n <= 255)%Z) nums.
Proof.
  unfold from_utf8_bytes, to_utf8_bytes.
  destruct (existsb _ nums) eqn:E; [discriminate|].
  destruct (valid (map Z.to_N nums)) eqn:V; [|discriminate]. intros [= <-].
  assert (F : Forall (fun n => (0 <= n <= 255)%Z) nums).
  { clear V. induction nums as [|n r IH]; [constructor|]. cbn [existsb] in E.
    apply orb_false_iff in E as [E1 E2]. apply orb_false_iff in E1 as [E1 E1'].
    constructor; [|apply IH; exact E2].
    destruct (Z.ltb_spec n 0); [discriminate|]. destruct (Z.ltb_spec 255 n); [discriminate|]. lia. }
  split; [|split; [exact V|exact F]].
  clear E V. induction F as [|n r Hn _ IH]; [reflexivity|]. cbn. rewrite Z2N.id, IH by lia. reflexivity.
Qed.

(* ------------------------------------------------------------------ *)
(* QuoteMeta and the literal fragment *)

(* semantics of the fragment: which strings a pattern matches as a whole *)
Inductive item_matches : item -> bytes -> Prop :=
| MChar b : item_matches (IChar b) [b]
| MEsc b : item_matches (IEsc b) [b].
Inductive seq_matches : list item -> bytes -> Prop :=
| SNil : seq_matches [] []
| SCons i r w1 w2 : item_matches i w1 -> seq_matches r w2 -> seq_matches (i :: r) (w1 ++ w2).

Lemma seq_matches_denote r w : seq_matches r w <-> w = denote r.
Proof.
  split.
  - induction 1 as [|i r w1 w2 Hi _ IH]; [reflexivity|]. subst w2. destruct Hi; reflexivity.
  - intros ->. induction r as [|i r IH]; [constructor|].
    change (denote (i :: r)) with ([item_byte i] ++ denote r). constructor; [|exact IH].
    destruct i; constructor.
Qed.

Definition quote_items (s : bytes) : list item :=
  map (fun b => if is_meta b then IEsc b else IChar b) s.

Lemma parse_quote s : parse_lit (quote_meta s) = Some (quote_items s).
Proof.
  induction s as [|b s IH]; [reflexivity|].
  cbn [quote_meta flat_map quote_items map]. destruct (is_meta b) eqn:M.
  - cbn [app parse_lit]. rewrite N.eqb_refl, M.
    change (flat_map _ s) with (quote_meta s). rewrite IH. reflexivity.
  - cbn [app parse_lit]. destruct (N.eqb_spec b 92) as [->|_]; [discriminate M|].
    rewrite M. change (flat_map _ s) with (quote_meta s). rewrite IH. reflexivity.
Qed.

Lemma denote_quote s : denote (quote_items s) = s.
Proof.
  induction s as [|b s IH]; [reflexivity|]. unfold denote, quote_items in *. cbn [map]. rewrite IH.
  destruct (is_meta b); reflexivity.
Qed.

(* the language of QuoteMeta s is {s} *)
Lemma quote_matches_literally s :
  exists r, parse_lit (quote_meta s) = Some r /\ forall w, seq_matches r w <-> w = s.
Proof.
  exists (quote_items s). split; [apply parse_quote|].
  intros w. rewrite seq_matches_denote, denote_quote. reflexivity.
Qed.

(* quoting leaves metacharacter-free text alone, and is injective *)
Lemma quote_meta_plain s : forallb (fun b => negb (is_meta b)) s = true -> quote_meta s = s.
Proof.
  induction s as [|b s IH]; [reflexivity|]. cbn [forallb]. intros H.
  apply andb_true_iff in H as [H1 H2]. apply negb_true_iff in H1.
  cbn [quote_meta flat_map]. rewrite H1. cbn. f_equal. apply IH; exact H2.
Qed.

Lemma quote_meta_injective s t : quote_meta s = quote_meta t -> s = t.
Proof.
  intros H. pose proof (parse_quote s) as Ps. rewrite H, parse_quote in Ps.
  injection Ps as E. rewrite <- (denote_quote s), <- (denote_quote t), E. reflexivity.
Qed.

(* every reported occurrence of a non-empty literal is one, inside the text, and
   occurrences come in order without overlap *)
Lemma occ_fuel_sound f : forall off w t a b, In (a, b) (occ_fuel f off w t) ->
  off <= a /\ b = a + length w /\ b <= off + length t /\ slice t (a - off) (b - off) = w.
Proof.
  induction f as [|f IH]; intros off w t a b; cbn [occ_fuel]; [intros []|].
  destruct (index t w) as [m|] eqn:I; [|intros []].
  destruct (index_cut t w m I) as (E & L). intros [[= <- <-]|H].
  - split; [lia|]. split; [lia|]. split; [lia|]. unfold slice.
    replace (off + m - off) with m by lia. replace (off + m + length w - off - m) with (length w) by lia.
    destruct (index_some t w m I) as (_ & O & _). apply has_prefix_iff in O as [x ->].
    rewrite firstn_app, Nat.sub_diag, firstn_all. cbn. apply app_nil_r.
  - apply IH in H as (H1 & H2 & H3 & H4). rewrite skipn_length in H3. split; [lia|]. split; [lia|]. split; [lia|].
    unfold slice in *. rewrite <- H4. rewrite skipn_skipn. f_equal; [lia|]. f_equal. lia.
Qed.
