(* C41 -- proofs about model/C41.v *)
From verif Require Import lib.Base lib.ListX lib.Utf8 lib.Utf8_proofs model.C41.
From Coq Require Import ZifyBool ZifyNat ZifyN.
Open Scope nat_scope.

Lemma has_prefix_iff s p : has_prefix s p = true <-> exists t, s = p ++ t.
Proof.
  revert s; induction p as [|b p IH]; intros s; cbn [has_prefix].
  - split; [intros _; exists s; reflexivity | reflexivity].
  - destruct s as [|c s].
    + split; [discriminate | intros [t H]; discriminate].
    + rewrite andb_true_iff, N.eqb_eq, IH. split.
      * intros [-> [t ->]]. exists t. reflexivity.
      * intros [t H]. cbn in H. inversion H; subst. split; [reflexivity | exists t; reflexivity].
Qed.
