(* C26 — the witness validator is exact: it accepts an order iff the order is a
   linearization. *)
From verif Require Import lib.Base model.C24_F64 model.C24_StoreSpec model.C24 model.C26
  proofs.C24_proofs proofs.C24_more proofs.C25_resmatch proofs.C26_proofs.
From Coq Require Import Floats.SpecFloat Sorting.Sorted Sorting.Permutation Lia.
Open Scope N_scope.

Lemma nodupb_complete l : NoDup l -> nodupb l = true.
Proof.
  induction 1 as [|x l Hx Hl IH]; cbn [nodupb]; [reflexivity|]. rewrite IH, andb_true_r.
  apply negb_true_iff. destruct (existsb (Nat.eqb x) l) eqn:E; [|reflexivity].
  apply existsb_eqb_true in E. contradiction.
Qed.

Lemma returned_in_complete h order :
  (forall i c, nth_error h i = Some c -> k_ret c <> None -> In i order) ->
  returned_in h order = true.
Proof.
  intros H. unfold returned_in. apply forallb_forall. intros i _.
  destruct (nth_error h i) as [c|] eqn:Ec; [|reflexivity].
  destruct (k_ret c) as [x|] eqn:Er; [|reflexivity].
  apply existsb_exists. exists i. split; [|apply Nat.eqb_refl].
  eapply H; [exact Ec|congruence].
Qed.

Lemma rt_walk_complete h order : forall st m, Legal h st order ->
  (forall x t, In x order -> ret_time h x = Some t -> m <= t) ->
  ForallOrdPairs (fun a b => ~ precedes h b a) order ->
  rt_walk h m order = true.
Proof.
  induction order as [|i r IH]; intros st m Hl Hm Hrt; cbn [rt_walk]; [reflexivity|].
  cbn [Legal] in Hl. destruct Hl as (c & Hc & _ & Hl'). rewrite Hc.
  inversion Hrt as [|? ? Hir Hrt']; subst. apply andb_true_iff. split.
  - destruct (k_ret c) as [[o t]|] eqn:Er; [|reflexivity]. apply N.leb_le.
    apply (Hm i t (or_introl eq_refl)). unfold ret_time. rewrite Hc, Er. reflexivity.
  - apply (IH _ _ Hl'); [|exact Hrt'].
    intros x t Hx Ht. specialize (Hm x t (or_intror Hx) Ht).
    rewrite Forall_forall in Hir. specialize (Hir x Hx).
    destruct (N.lt_ge_cases t (k_inv c)) as [Hlt|Hge]; [|lia].
    exfalso. apply Hir. exists t, (k_inv c). split; [exact Ht|]. split; [|exact Hlt].
    unfold inv_time. rewrite Hc. reflexivity.
Qed.

Lemma replay_complete h order : forall st, Legal h st order -> replay h st order = true.
Proof.
  induction order as [|i r IH]; intros st Hl; cbn [replay Legal] in *; [reflexivity|].
  destruct Hl as (c & Hc & Hok & Hl'). rewrite Hc.
  destruct (spec_step isort_desc st (k_op c)) as [st' e]. cbn [fst snd] in *.
  apply andb_true_iff. split; [|apply IH, Hl'].
  destruct (k_ret c) as [[o t]|]; [|reflexivity]. apply res_match_complete. eapply Hok. reflexivity.
Qed.

Lemma check_witness_complete st0 h order :
  Linearization st0 h order -> check_witness st0 h order = true.
Proof.
  intros (Hnd & Hall & Hrt & Hl). unfold check_witness.
  rewrite (nodupb_complete _ Hnd), (returned_in_complete _ _ Hall), (replay_complete _ _ _ Hl).
  rewrite (rt_walk_complete h order st0 0 Hl); [reflexivity| |exact Hrt].
  intros x t _ _. lia.
Qed.

Lemma check_witness_exact st0 h order :
  check_witness st0 h order = true <-> Linearization st0 h order.
Proof. split; [apply check_witness_linearization|apply check_witness_complete]. Qed.
