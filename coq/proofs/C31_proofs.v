(* Proofs for C31: the model of readRune/readEvent is total on every finite
   stream, only the first read of a call is issued without a timeout, valid
   UTF-8 is decoded exactly, and plain text is decoded one key per character. *)
From Coq Require Import ZifyBool ZifyNat ZifyN.
From verif Require Import lib.Base lib.Utf8 gen.Consts model.C31.
Open Scope Z_scope.

Ltac Zify.zify_post_hook ::= Z.to_euclidean_division_equations.

(* ------------------------------------------------------------------ *)
(* the reader-state invariant: a computation only appends reads that carry a
   sequence timeout, and never un-consumes input *)
Definition seq_timeout (t : Z) : Prop := t = keySeqTimeout \/ t = utf8SeqTimeout.

Definition ext (st st' : rstate) : Prop :=
  exists new, rs_log st' = new ++ rs_log st /\ Forall seq_timeout new
              /\ (length (rs_in st') <= length (rs_in st))%nat.

Definition good {A} (m : M A) : Prop := forall st, ext st (snd (m st)).

Lemma ext_refl st : ext st st.
Proof. exists []. split; [reflexivity|]. split; [constructor|lia]. Qed.

Lemma ext_trans a b c : ext a b -> ext b c -> ext a c.
Proof.
  intros (n1 & L1 & F1 & I1) (n2 & L2 & F2 & I2).
  exists (n2 ++ n1). split; [rewrite L2, L1, app_assoc; reflexivity|].
  split; [apply Forall_app; split; assumption|lia].
Qed.

Lemma good_ret {A} (a : A) : good (ret a).
Proof. intros st; apply ext_refl. Qed.

Lemma good_bind {A B} (m : M A) (f : A -> M B) :
  good m -> (forall a, good (f a)) -> good (bind m f).
Proof.
  intros Hm Hf st. unfold bind. specialize (Hm st). destruct (m st) as [a st1].
  eapply ext_trans; [exact Hm|apply Hf].
Qed.

Lemma take_byte_len b s : (length (snd (take_byte b s)) <= length s)%nat.
Proof.
  induction s as [|[x|] s IH]; cbn [take_byte snd length]; try lia.
  destruct b; cbn [snd]; lia.
Qed.

Lemma take_byte_consumes b s x r : take_byte b s = (RByte x, r) -> (length r < length s)%nat.
Proof.
  induction s as [|[y|] s IH]; cbn [take_byte length]; intros E.
  - discriminate.
  - inversion E; subst; lia.
  - destruct b; [apply IH in E; lia|discriminate].
Qed.

Lemma take_byte_block_no_timeout s r : take_byte true s <> (RTimeout, r).
Proof. induction s as [|[y|] s IH]; cbn [take_byte]; try discriminate; assumption. Qed.

Lemma take_byte_eof b s r : take_byte b s = (REOF, r) -> r = [].
Proof.
  induction s as [|[y|] s IH]; cbn [take_byte]; intros E.
  - inversion E; reflexivity.
  - discriminate.
  - destruct b; [auto|discriminate].
Qed.

Lemma good_read_byte t : seq_timeout t -> good (read_byte t).
Proof.
  intros Ht st. unfold read_byte.
  pose proof (take_byte_len (t <? 0) (rs_in st)) as Hl.
  destruct (take_byte (t <? 0) (rs_in st)) as [r rest]. cbn [snd rs_log rs_in] in *.
  exists [t]. split; [reflexivity|]. split; [constructor; [exact Ht|constructor]|exact Hl].
Qed.

Lemma good_read_cont n : forall r, good (read_cont n r).
Proof.
  induction n as [|n IH]; intros r; cbn [read_cont].
  - apply good_ret.
  - apply good_bind; [apply good_read_byte; right; reflexivity|].
    intros [b| |]; [apply IH|apply good_ret|apply good_ret].
Qed.

Lemma good_readRune t : seq_timeout t -> good (readRune t).
Proof.
  intros Ht. unfold readRune. apply good_bind; [apply good_read_byte; exact Ht|].
  intros [b| |]; try apply good_ret. destruct (leader_class b). apply good_read_cont.
Qed.

Lemma good_next_rune : good next_rune.
Proof.
  unfold next_rune. apply good_bind; [apply good_readRune; left; reflexivity|].
  intros a; apply good_ret.
Qed.

Ltac good_step :=
  match goal with
  | |- good (ret _) => apply good_ret
  | |- good next_rune => apply good_next_rune
  | |- good (bind _ _) => apply good_bind; [|intro]
  | |- good (if ?c then _ else _) => destruct c
  | |- good (match ?x with _ => _ end) => destruct x
  end.

Lemma good_read_x10 : good read_x10.
Proof. unfold read_x10. repeat good_step. Qed.

Lemma good_csi_loop fuel : forall r nums, good (csi_loop fuel r nums).
Proof.
  induction fuel as [|f IH]; intros r nums; cbn [csi_loop]; [apply good_ret|].
  destruct (r =? 59); [apply good_bind; [apply good_next_rune|intro; apply IH]|].
  destruct ((48 <=? r) && (r <=? 57)); [apply good_bind; [apply good_next_rune|intro; apply IH]|].
  destruct (r =? endOfSeq); apply good_ret.
Qed.

Lemma good_csi_loop_auto r : good (csi_loop_auto r).
Proof. intros st. unfold csi_loop_auto. apply good_csi_loop. Qed.

Lemma good_read_csi two : good (read_csi two).
Proof.
  unfold read_csi. apply good_bind; [apply good_next_rune|intro r].
  destruct (r =? endOfSeq); [apply good_ret|].
  destruct (r =? 77); [apply good_read_x10|].
  apply good_bind; [repeat good_step|intro sr].
  apply good_bind; [apply good_csi_loop_auto|intro e].
  destruct e; apply good_ret.
Qed.

Lemma good_read_g3 two : good (read_g3 two).
Proof. unfold read_g3. repeat good_step. Qed.

(* ------------------------------------------------------------------ *)
(* consumption: a rune is only returned after at least one item was consumed *)
Lemma read_cont_len n : forall r st, (length (rs_in (snd (read_cont n r st))) <= length (rs_in st))%nat.
Proof. intros r st. destruct (good_read_cont n r st) as (_ & _ & _ & H). exact H. Qed.

Lemma read_byte_inv t st x st' :
  read_byte t st = (x, st') ->
  rs_log st' = t :: rs_log st /\ take_byte (t <? 0) (rs_in st) = (x, rs_in st').
Proof.
  unfold read_byte. destruct (take_byte (t <? 0) (rs_in st)) as [r rest].
  intros E; inversion E; subst; cbn [rs_log rs_in]; split; reflexivity.
Qed.

Lemma readRune_consumes t st r st' :
  readRune t st = (inl r, st') -> (length (rs_in st') < length (rs_in st))%nat.
Proof.
  unfold readRune, bind. destruct (read_byte t st) as [x st1] eqn:E1.
  apply read_byte_inv in E1 as [_ E1].
  destruct x as [b| |]; unfold ret; try discriminate.
  intros E. apply take_byte_consumes in E1.
  destruct (leader_class b) as [r0 p].
  pose proof (read_cont_len p r0 st1) as H. rewrite E in H. cbn [snd] in H. lia.
Qed.

Lemma rune_nonneg (r : N) : Z.of_N r <> endOfSeq.
Proof. unfold endOfSeq, pkg_cli_term.runeEndOfSeq. lia. Qed.

Lemma next_rune_consumes st r st' :
  next_rune st = (r, st') ->
  (length (rs_in st') <= length (rs_in st))%nat
  /\ (r <> endOfSeq -> (length (rs_in st') < length (rs_in st))%nat).
Proof.
  intros E. split.
  - destruct (good_next_rune st) as (_ & _ & _ & H). rewrite E in H. exact H.
  - revert E. unfold next_rune, bind. destruct (readRune keySeqTimeout st) as [x st1] eqn:E1.
    unfold ret. intros E; inversion E; subst. destruct x as [r0|e]; intros Hr.
    + eapply readRune_consumes; eauto.
    + exfalso; apply Hr; reflexivity.
Qed.

(* the CSI loop never runs out of fuel *)
Lemma csi_loop_fuel fuel : forall r nums st,
  (r = endOfSeq /\ (1 <= fuel)%nat) \/ (length (rs_in st) + 2 <= fuel)%nat ->
  fst (csi_loop fuel r nums st) <> CsiFuel.
Proof.
  induction fuel as [|f IH]; intros r nums st H; [lia|].
  cbn [csi_loop].
  assert (Hnext : forall nums', fst (bind next_rune (fun r' => csi_loop f r' nums') st) <> CsiFuel
                               \/ r = endOfSeq).
  { intros nums'. destruct H as [[H _]|H]; [right; exact H|left].
    unfold bind. destruct (next_rune st) as [r' st1] eqn:E.
    apply next_rune_consumes in E as [E1 E2]. apply IH.
    destruct (Z.eq_dec r' endOfSeq) as [Hr|Hr]; [left; split; [exact Hr|lia]|right].
    specialize (E2 Hr). lia. }
  destruct (r =? 59) eqn:E59.
  { destruct (Hnext (0 :: nums)) as [Hn|Hn]; [exact Hn|].
    exfalso. unfold endOfSeq, pkg_cli_term.runeEndOfSeq in Hn. lia. }
  destruct ((48 <=? r) && (r <=? 57)) eqn:Edig.
  { match goal with |- fst (bind next_rune (fun r' => csi_loop f r' ?n) st) <> _ =>
      destruct (Hnext n) as [Hn|Hn]; [exact Hn|] end.
    exfalso. unfold endOfSeq, pkg_cli_term.runeEndOfSeq in Hn. lia. }
  destruct (r =? endOfSeq); unfold ret; cbn [fst]; discriminate.
Qed.

(* ------------------------------------------------------------------ *)
(* results that are an event or an error *)
Definition final (r : result) : Prop := r <> ROutOfFuel.
Definition finalM (m : M result) : Prop := forall st, final (fst (m st)).

Lemma finalM_ret r : final r -> finalM (ret r).
Proof. intros H st; exact H. Qed.

Lemma finalM_bind {A} (m : M A) f : (forall a, finalM (f a)) -> finalM (bind m f).
Proof. intros H st. unfold bind. destruct (m st) as [a st1]. apply H. Qed.

Lemma final_event e : final (REvent e). Proof. discriminate. Qed.
Lemma final_err e : final (RErr e). Proof. discriminate. Qed.
#[local] Hint Resolve final_event final_err : core.

Ltac final_step :=
  match goal with
  | |- finalM (ret _) => apply finalM_ret; auto
  | |- finalM (bind _ _) => apply finalM_bind; intro
  | |- finalM (if ?c then _ else _) => destruct c
  | |- finalM (match ?x with _ => _ end) => destruct x
  end.

Lemma final_read_x10 : finalM read_x10.
Proof. unfold read_x10. repeat final_step. Qed.

Lemma final_csi_finish two starter last nums : final (csi_finish two starter last nums).
Proof.
  unfold csi_finish.
  repeat match goal with
         | |- final (if ?c then _ else _) => destruct c
         | |- final (match ?x with _ => _ end) => destruct x
         end; auto.
Qed.

Lemma final_read_g3 two : finalM (read_g3 two).
Proof. unfold read_g3. repeat final_step. Qed.

Lemma final_read_csi two : finalM (read_csi two).
Proof.
  unfold read_csi. apply finalM_bind; intro r.
  destruct (r =? endOfSeq); [apply finalM_ret; auto|].
  destruct (r =? 77); [apply final_read_x10|].
  apply finalM_bind; intro sr.
  intros st. unfold bind.
  destruct (csi_loop_auto (snd sr) st) as [e st1] eqn:E.
  destruct e; unfold ret; cbn [fst]; auto using final_csi_finish.
  exfalso. unfold csi_loop_auto in E.
  eapply (csi_loop_fuel (length (rs_in st) + 2) (snd sr) [] st); [right; lia|].
  rewrite E; reflexivity.
Qed.

Lemma final_dispatch x : finalM (dispatch x).
Proof.
  unfold dispatch. destruct x as [r0|[|]]; try (apply finalM_ret; auto).
  cbv zeta. destruct (Z.of_N r0 =? 27); [|apply finalM_ret; auto].
  apply finalM_bind; intro r2. apply finalM_bind; intro tr.
  destruct (snd tr =? endOfSeq); [apply finalM_ret; auto|].
  destruct (snd tr =? 91); [apply final_read_csi|].
  destruct (snd tr =? 79); [apply final_read_g3|apply finalM_ret; auto].
Qed.

Lemma final_readEvent : finalM readEvent.
Proof. unfold readEvent. apply finalM_bind; intro x. apply final_dispatch. Qed.

(* ------------------------------------------------------------------ *)
(* the read log of one readEvent call *)
Definition log_shape (l : list Z) : Prop :=
  exists later, l = noTimeout :: later /\ Forall seq_timeout later.

Lemma good_dispatch x : good (dispatch x).
Proof.
  unfold dispatch. destruct x as [r0|[|]]; try apply good_ret. cbv zeta.
  destruct (Z.of_N r0 =? 27); [|apply good_ret].
  apply good_bind; [apply good_next_rune|intro r2].
  apply good_bind; [repeat good_step|intro tr].
  destruct (snd tr =? endOfSeq); [apply good_ret|].
  destruct (snd tr =? 91); [apply good_read_csi|].
  destruct (snd tr =? 79); [apply good_read_g3|apply good_ret].
Qed.

(* first rune: first read with the given timeout, the rest with utf8SeqTimeout *)
Lemma readRune_log t st :
  exists later, rs_log (snd (readRune t st)) = later ++ t :: rs_log st /\ Forall seq_timeout later
                /\ (length (rs_in (snd (readRune t st))) <= length (rs_in st))%nat.
Proof.
  unfold readRune, bind. destruct (read_byte t st) as [x st1] eqn:E1.
  apply read_byte_inv in E1 as [L1 T1].
  pose proof (take_byte_len (t <? 0) (rs_in st)) as Hl. rewrite T1 in Hl. cbn [snd] in Hl.
  assert (Hbase : exists later, rs_log st1 = later ++ t :: rs_log st /\ Forall seq_timeout later
                  /\ (length (rs_in st1) <= length (rs_in st))%nat).
  { exists []. split; [exact L1|]. split; [constructor|exact Hl]. }
  destruct x as [b| |]; unfold ret; cbn [snd]; try exact Hbase.
  destruct (leader_class b) as [r0 p].
  destruct (good_read_cont p r0 st1) as (new & Ln & Fn & In).
  exists new. split; [rewrite Ln, L1; reflexivity|]. split; [exact Fn|lia].
Qed.

Lemma readEvent_log st :
  rs_log st = [] -> log_shape (rev (rs_log (snd (readEvent st)))).
Proof.
  intros Hst. unfold readEvent, bind.
  destruct (readRune_log noTimeout st) as (l1 & L1 & F1 & _).
  destruct (readRune noTimeout st) as [x st1]. cbn [snd] in L1.
  pose proof (good_dispatch x st1) as (l2 & L2 & F2 & _).
  rewrite L2, L1, Hst. rewrite rev_app_distr, rev_app_distr. cbn [rev app].
  exists (rev l1 ++ rev l2). split; [reflexivity|].
  apply Forall_app; split; apply Forall_rev; assumption.
Qed.

(* progress: a call that does not report the end of input consumes an item;
   the end of input is only reported when nothing is left *)
Lemma readRune_block_progress st x st' :
  readRune noTimeout st = (x, st') ->
  match x with
  | inr EEOF => rs_in st' = []
  | _ => (length (rs_in st') < length (rs_in st))%nat
  end.
Proof.
  unfold readRune, bind. destruct (read_byte noTimeout st) as [y st1] eqn:E1.
  apply read_byte_inv in E1 as [_ T1]. change (noTimeout <? 0) with true in T1.
  destruct y as [b| |]; unfold ret.
  - apply take_byte_consumes in T1. destruct (leader_class b) as [r0 p]. intros E.
    pose proof (read_cont_len p r0 st1) as Hl. rewrite E in Hl. cbn [snd] in Hl.
    assert (Hlt : (length (rs_in st') < length (rs_in st))%nat) by lia.
    destruct x as [r|[|]]; try exact Hlt.
    (* EOF inside the continuation: everything was consumed *)
    clear - E. revert r0 st1 E. induction p as [|p IH]; intros r0 st1; cbn [read_cont]; unfold ret; [discriminate|].
    unfold bind. destruct (read_byte utf8SeqTimeout st1) as [y st2] eqn:E2.
    apply read_byte_inv in E2 as [_ T2].
    destruct y as [b| |]; [apply IH|discriminate|].
    intros E; inversion E; subst. apply take_byte_eof in T2. exact T2.
  - exfalso. eapply take_byte_block_no_timeout; eauto.
  - intros E; inversion E; subst. apply take_byte_eof in T1. exact T1.
Qed.

(* only the first readRune can make the result "end of input" *)
Definition not_eof (m : M result) : Prop := forall st, is_eof (fst (m st)) = false.

Lemma not_eof_ret r : is_eof r = false -> not_eof (ret r).
Proof. intros H st; exact H. Qed.

Lemma not_eof_bind {A} (m : M A) f : (forall a, not_eof (f a)) -> not_eof (bind m f).
Proof. intros H st. unfold bind. destruct (m st) as [a st1]. apply H. Qed.

Ltac ne_step :=
  match goal with
  | |- not_eof (ret _) => apply not_eof_ret; reflexivity
  | |- not_eof (bind _ _) => apply not_eof_bind; intro
  | |- not_eof (if ?c then _ else _) => destruct c
  | |- not_eof (match ?x with _ => _ end) => destruct x
  end.

Lemma not_eof_csi_finish two starter last nums : is_eof (csi_finish two starter last nums) = false.
Proof.
  unfold csi_finish.
  repeat match goal with
         | |- is_eof (if ?c then _ else _) = false => destruct c
         | |- is_eof (match ?x with _ => _ end) = false => destruct x
         end; reflexivity.
Qed.

Lemma not_eof_read_csi two : not_eof (read_csi two).
Proof.
  unfold read_csi. apply not_eof_bind; intro r.
  destruct (r =? endOfSeq); [ne_step|].
  destruct (r =? 77); [unfold read_x10; repeat ne_step|].
  apply not_eof_bind; intro sr. apply not_eof_bind; intro e.
  destruct e; apply not_eof_ret; [apply not_eof_csi_finish|reflexivity|reflexivity].
Qed.

Lemma not_eof_read_g3 two : not_eof (read_g3 two).
Proof. unfold read_g3. repeat ne_step. Qed.

Lemma not_eof_dispatch r0 : not_eof (dispatch (inl r0)).
Proof.
  unfold dispatch. cbv zeta. destruct (Z.of_N r0 =? 27); [|ne_step].
  apply not_eof_bind; intro r2. apply not_eof_bind; intro tr.
  destruct (snd tr =? endOfSeq); [ne_step|].
  destruct (snd tr =? 91); [apply not_eof_read_csi|].
  destruct (snd tr =? 79); [apply not_eof_read_g3|ne_step].
Qed.

Lemma readEvent_progress st :
  if is_eof (fst (readEvent st)) then rs_in (snd (readEvent st)) = []
  else (length (rs_in (snd (readEvent st))) < length (rs_in st))%nat.
Proof.
  unfold readEvent, bind. destruct (readRune noTimeout st) as [x st1] eqn:E1.
  apply readRune_block_progress in E1.
  pose proof (good_dispatch x st1) as (_ & _ & _ & Hl).
  destruct x as [r0|[|]].
  - rewrite (not_eof_dispatch r0 st1). lia.
  - cbn [dispatch ret fst snd is_eof]. unfold ret. cbn [fst snd is_eof]. exact E1.
  - unfold dispatch, ret. cbn [fst snd is_eof]. exact E1.
Qed.

(* ------------------------------------------------------------------ *)
(* decoding a whole stream *)
Definition call_ok (x : result * list Z) : Prop :=
  final (fst x) /\ is_eof (fst x) = false /\ log_shape (snd x).

Lemma run_events_total fuel : forall s, (length s < fuel)%nat ->
  exists pre lg, run_events fuel s = pre ++ [(RErr ErrEOF, lg)]
                 /\ Forall call_ok pre /\ log_shape lg.
Proof.
  induction fuel as [|f IH]; intros s Hf; [lia|].
  cbn [run_events].
  pose proof (readEvent_progress (mkR s [])) as Hp.
  pose proof (readEvent_log (mkR s []) eq_refl) as Hl.
  pose proof (final_readEvent (mkR s [])) as Hfin.
  destruct (readEvent (mkR s [])) as [res st1]. cbn [fst snd rs_in] in *.
  destruct (is_eof res) eqn:Eeof.
  - exists [], (rev (rs_log st1)). split; [|split; [constructor|exact Hl]].
    destruct res as [e|[| | |]|]; try discriminate. reflexivity.
  - destruct (IH (rs_in st1)) as (pre & lg & E & Fp & Hlg); [lia|].
    exists ((res, rev (rs_log st1)) :: pre), lg. split; [rewrite E; reflexivity|].
    split; [|exact Hlg]. constructor; [|exact Fp].
    split; [exact Hfin|split; [exact Eeof|exact Hl]].
Qed.

(* ------------------------------------------------------------------ *)
(* readRune decodes valid UTF-8 *)
Open Scope N_scope.

Lemma leader_class_1 b : b < 128 -> leader_class b = (b, 0%nat).
Proof. intros H. unfold leader_class. replace (b / 128 =? 0) with true by lia. reflexivity. Qed.

Lemma leader_class_2 b : 192 <= b < 224 -> leader_class b = (b mod 32, 1%nat).
Proof.
  intros H. unfold leader_class.
  replace (b / 128 =? 0) with false by lia. replace (b / 32 =? 6) with true by lia. reflexivity.
Qed.

Lemma leader_class_3 b : 224 <= b < 240 -> leader_class b = (b mod 16, 2%nat).
Proof.
  intros H. unfold leader_class.
  replace (b / 128 =? 0) with false by lia. replace (b / 32 =? 6) with false by lia.
  replace (b / 16 =? 14) with true by lia. reflexivity.
Qed.

Lemma leader_class_4 b : 240 <= b < 248 -> leader_class b = (b mod 8, 3%nat).
Proof.
  intros H. unfold leader_class.
  replace (b / 128 =? 0) with false by lia. replace (b / 32 =? 6) with false by lia.
  replace (b / 16 =? 14) with false by lia. replace (b / 8 =? 30) with true by lia. reflexivity.
Qed.

(* the bytes of [bs] arrive one after the other, [rest] follows *)
Definition decodes (r : N) (bs : bytes) : Prop :=
  forall t g rest lg,
    (g = 0%nat \/ (t < 0)%Z) ->
    exists lg', readRune t (mkR (repeat Timeout g ++ map Byte bs ++ rest) lg) = (inl r, mkR rest lg').

Lemma take_byte_gaps g b s : take_byte true (repeat Timeout g ++ Byte b :: s) = (RByte b, s).
Proof. induction g as [|g IH]; cbn [repeat app take_byte]; [reflexivity|exact IH]. Qed.

Lemma read_first t g b s lg :
  (g = 0%nat \/ (t < 0)%Z) ->
  read_byte t (mkR (repeat Timeout g ++ Byte b :: s) lg) = (RByte b, mkR s (t :: lg)).
Proof.
  intros [->|Ht]; unfold read_byte; cbn [rs_in rs_log].
  - cbn [repeat app take_byte]. reflexivity.
  - replace (t <? 0)%Z with true by lia. rewrite take_byte_gaps. reflexivity.
Qed.

Lemma read_next b s lg :
  read_byte utf8SeqTimeout (mkR (Byte b :: s) lg) = (RByte b, mkR s (utf8SeqTimeout :: lg)).
Proof. reflexivity. Qed.

Lemma readrune_decodes_utf8 r : valid_rune r = true -> decodes r (encode_rune r).
Proof.
  intros Hv t g rest lg Hg. unfold valid_rune, is_surrogate, MaxRune in Hv.
  unfold encode_rune.
  destruct (r <? 128) eqn:E1.
  { cbn [map app]. unfold readRune, bind. rewrite read_first by exact Hg.
    rewrite leader_class_1 by lia. cbn [read_cont]. unfold ret. eauto. }
  destruct (r <? 2048) eqn:E2.
  { cbn [map app]. unfold readRune, bind. rewrite read_first by exact Hg.
    rewrite leader_class_2 by lia. cbn [read_cont]. unfold bind. rewrite read_next. unfold ret.
    eexists. f_equal. f_equal. lia. }
  replace (valid_rune r) with true by (unfold valid_rune, is_surrogate, MaxRune; lia).
  cbn [negb].
  destruct (r <? 65536) eqn:E3.
  { cbn [map app]. unfold readRune, bind. rewrite read_first by exact Hg.
    rewrite leader_class_3 by lia. cbn [read_cont]. unfold bind. rewrite !read_next. unfold ret.
    eexists. f_equal. f_equal. lia. }
  cbn [map app]. unfold readRune, bind. rewrite read_first by exact Hg.
  rewrite leader_class_4 by lia. cbn [read_cont]. unfold bind. rewrite !read_next. unfold ret.
  eexists. f_equal. f_equal. lia.
Qed.

Close Scope N_scope.

(* ------------------------------------------------------------------ *)
(* plain text *)
Lemma ctrlModify_plain r : plain_rune r = true -> ctrlModify (Z.of_N r) = K (Z.of_N r) 0.
Proof.
  unfold plain_rune. intros H. unfold ctrlModify, pkg_ui.Tab, pkg_ui.Enter, pkg_ui.Backspace.
  replace (Z.of_N r =? 0) with false by lia.
  replace (Z.of_N r =? 30) with false by lia.
  replace (Z.of_N r =? 31) with false by lia.
  replace ((Z.of_N r =? 9) || (Z.of_N r =? 10) || (Z.of_N r =? 127)) with false by lia.
  replace ((1 <=? Z.of_N r) && (Z.of_N r <=? 29)) with false by lia.
  reflexivity.
Qed.

Lemma plain_valid r : plain_rune r = true -> valid_rune r = true.
Proof. unfold plain_rune. intros H. apply andb_true_iff in H as [H _]. apply andb_true_iff in H as [H _]. exact H. Qed.

Lemma readEvent_plain g r rest :
  plain_rune r = true ->
  exists lg, readEvent (mkR (repeat Timeout g ++ map Byte (encode_rune r) ++ rest) [])
             = (REvent (EKey (mkKey (Z.of_N r) 0)), mkR rest lg).
Proof.
  intros Hp. unfold readEvent, bind.
  destruct (readrune_decodes_utf8 r (plain_valid r Hp) noTimeout g rest []) as [lg E];
    [right; reflexivity|].
  rewrite E. unfold dispatch. cbv zeta.
  replace (Z.of_N r =? 27) with false by (unfold plain_rune in Hp; lia).
  unfold ret. rewrite ctrlModify_plain by exact Hp. eauto.
Qed.

Definition text_results (rs : list (nat * N)) : list result :=
  map (fun gr => REvent (EKey (mkKey (Z.of_N (snd gr)) 0))) rs ++ [RErr ErrEOF].

Lemma text_stream_len_cons g r t :
  (length (text_stream t) < length (text_stream ((g, r) :: t)))%nat.
Proof.
  cbn [text_stream]. rewrite !app_length, map_length.
  assert (0 < length (encode_rune r))%nat; [|lia].
  unfold encode_rune. repeat match goal with |- context [if ?c then _ else _] => destruct c end; cbn; lia.
Qed.

Lemma run_events_plain rs : forall fuel,
  Forall (fun gr => plain_rune (snd gr) = true) rs ->
  (length (text_stream rs) < fuel)%nat ->
  map fst (run_events fuel (text_stream rs)) = text_results rs.
Proof.
  induction rs as [|[g r] t IH]; intros fuel Hall Hf.
  - destruct fuel as [|f]; [cbn in Hf; lia|]. reflexivity.
  - destruct fuel as [|f]; [lia|].
    inversion Hall as [|x l Hr Ht]; subst. cbn [snd] in Hr.
    cbn [run_events]. cbn [text_stream] in *.
    destruct (readEvent_plain g r (text_stream t) Hr) as [lg E]. rewrite E.
    cbn [is_eof rs_in map fst]. unfold text_results. cbn [map snd app]. f_equal.
    apply IH; [exact Ht|].
    pose proof (text_stream_len_cons g r t) as Hl. cbn [text_stream] in Hl. lia.
Qed.

Lemma plain_text_lossless rs :
  Forall (fun gr => plain_rune (snd gr) = true) rs ->
  map fst (run_all (text_stream rs)) = text_results rs.
Proof. intros H. apply run_events_plain; [exact H|lia]. Qed.

(* ------------------------------------------------------------------ *)
(* the sequence timeouts are finite and positive *)
Lemma seq_timeout_pos t : seq_timeout t -> 0 < t.
Proof. intros [->| ->]; reflexivity. Qed.

Lemma only_first_read_blocks s :
  exists later, rev (rs_log (snd (readEvent (mkR s [])))) = noTimeout :: later
                /\ Forall (fun t => (t = keySeqTimeout \/ t = utf8SeqTimeout) /\ 0 < t) later.
Proof.
  destruct (readEvent_log (mkR s []) eq_refl) as (later & E & F).
  exists later. split; [exact E|].
  eapply Forall_impl; [|exact F]. intros t Ht. split; [exact Ht|apply seq_timeout_pos; exact Ht].
Qed.

Lemma read_event_total st :
  (exists e, fst (readEvent st) = REvent e) \/ (exists k, fst (readEvent st) = RErr k).
Proof.
  pose proof (final_readEvent st) as H. destruct (fst (readEvent st)) as [e|k|].
  - left; eauto.
  - right; eauto.
  - exfalso; apply H; reflexivity.
Qed.

(* ------------------------------------------------------------------ *)
(* the property on observations, and soundness of the oracle *)
Definition Spec_C31 (s : stream) (txt : option (list (nat * N))) (o : list (obs * list Z)) : Prop :=
  Forall (fun x => fst x <> OBad) o
  /\ Forall (fun x => forall first later, snd x = first :: later -> Forall (fun t => 0 <= t) later) o
  /\ (forall rs, txt = Some rs -> Forall (fun gr => plain_rune (snd gr) = true) rs ->
                 text_stream rs = s -> map fst o = text_expected rs).

Lemma key_eqb_spec a b : key_eqb a b = true <-> a = b.
Proof.
  destruct a as [r m], b as [r' m']. unfold key_eqb. cbn [k_rune k_mod]. split.
  - intros H. apply andb_true_iff in H as [H1 H2]. f_equal; lia.
  - intros E; inversion E; subst. apply andb_true_iff; split; lia.
Qed.

Lemma bool_eqb_iff a b : Bool.eqb a b = true <-> a = b.
Proof. destruct a, b; cbn; split; congruence. Qed.

Lemma event_eqb_spec a b : event_eqb a b = true <-> a = b.
Proof.
  destruct a, b; cbn [event_eqb]; split; intros H; try discriminate.
  - apply key_eqb_spec in H. congruence.
  - inversion H; subst. apply key_eqb_spec. reflexivity.
  - apply andb_true_iff in H as [H H5]. apply andb_true_iff in H as [H H4].
    apply andb_true_iff in H as [H H3]. apply andb_true_iff in H as [H1 H2].
    apply Bool.eqb_prop in H3. subst. f_equal; lia.
  - inversion H; subst. repeat (apply andb_true_iff; split); try lia. apply Bool.eqb_reflx.
  - apply andb_true_iff in H as [H1 H2]. f_equal; lia.
  - inversion H; subst. apply andb_true_iff; split; lia.
  - apply Bool.eqb_prop in H. congruence.
  - inversion H; subst. apply Bool.eqb_reflx.
Qed.

Lemma seqmsg_eqb_spec a b : seqmsg_eqb a b = true <-> a = b.
Proof. destruct a, b; cbn; split; congruence. Qed.

Lemma errkind_eqb_spec a b : errkind_eqb a b = true <-> a = b.
Proof.
  destruct a, b; cbn [errkind_eqb]; split; intros H; try discriminate; try reflexivity.
  - apply seqmsg_eqb_spec in H. congruence.
  - inversion H; subst. apply seqmsg_eqb_spec. reflexivity.
Qed.

Lemma obs_eqb_spec a b : obs_eqb a b = true <-> a = b.
Proof.
  destruct a, b; cbn [obs_eqb]; split; intros H; try discriminate; try reflexivity.
  - apply event_eqb_spec in H. congruence.
  - inversion H; subst. apply event_eqb_spec. reflexivity.
  - apply errkind_eqb_spec in H. congruence.
  - inversion H; subst. apply errkind_eqb_spec. reflexivity.
Qed.

Lemma item_eqb_spec a b : item_eqb a b = true <-> a = b.
Proof.
  destruct a, b; cbn [item_eqb]; split; intros H; try discriminate; try reflexivity.
  - apply N.eqb_eq in H. congruence.
  - inversion H; subst. apply N.eqb_refl.
Qed.

Lemma check_C31_sound s txt o : check_C31 s txt o = true -> Spec_C31 s txt o.
Proof.
  unfold check_C31. intros H.
  apply andb_true_iff in H as [H H3]. apply andb_true_iff in H as [H1 H2].
  rewrite forallb_forall in H1, H2.
  split; [|split].
  - apply Forall_forall. intros x Hx E. specialize (H1 x Hx). rewrite E in H1. discriminate.
  - apply Forall_forall. intros x Hx first later E. specialize (H2 x Hx). rewrite E in H2.
    cbn [log_ok] in H2. rewrite forallb_forall in H2. apply Forall_forall. intros t Ht.
    specialize (H2 t Ht). lia.
  - intros rs -> Hall Hs.
    assert (Hp : forallb (fun gr => plain_rune (snd gr)) rs = true).
    { apply forallb_forall. intros x Hx. rewrite Forall_forall in Hall. apply Hall. exact Hx. }
    rewrite Hp in H3.
    assert (He : list_eqb item_eqb (text_stream rs) s = true).
    { apply (list_eqb_spec item_eqb item_eqb_spec). exact Hs. }
    rewrite He in H3. cbn [andb] in H3.
    apply (list_eqb_spec obs_eqb obs_eqb_spec) in H3. exact H3.
Qed.

(* what the model does on any stream satisfies the property *)
Definition model_obs (s : stream) : list (obs * list Z) :=
  map (fun x => (obs_of_result (fst x), snd x)) (run_all s).

Lemma log_shape_later l first later :
  log_shape l -> l = first :: later -> Forall (fun t => 0 <= t) later.
Proof.
  intros (lt & E & F) E2. rewrite E in E2. inversion E2; subst.
  eapply Forall_impl; [|exact F]. intros t Ht. apply seq_timeout_pos in Ht. lia.
Qed.

Lemma model_satisfies_spec s txt : Spec_C31 s txt (model_obs s).
Proof.
  unfold model_obs, run_all.
  destruct (run_events_total (S (length s)) s) as (pre & lg & E & Fp & Hlg); [lia|].
  split; [|split].
  - rewrite E. apply Forall_forall. intros x Hx. apply in_map_iff in Hx as ((r & l) & <- & Hin).
    cbn [fst]. apply in_app_or in Hin as [Hin|[Hin|[]]].
    + rewrite Forall_forall in Fp. destruct (Fp _ Hin) as (Hf & _). cbn [fst] in Hf.
      destruct r; cbn; try discriminate. exfalso; apply Hf; reflexivity.
    + inversion Hin; subst. discriminate.
  - rewrite E. apply Forall_forall. intros x Hx. apply in_map_iff in Hx as ((r & l) & <- & Hin).
    cbn [snd]. intros first later El. apply in_app_or in Hin as [Hin|[Hin|[]]].
    + rewrite Forall_forall in Fp. destruct (Fp _ Hin) as (_ & _ & Hl). cbn [snd] in Hl.
      eapply log_shape_later; eauto.
    + inversion Hin; subst. eapply log_shape_later; eauto.
  - intros rs _ Hall <-. rewrite map_map. cbn [fst].
    rewrite <- (map_map fst obs_of_result). fold (run_all (text_stream rs)).
    rewrite plain_text_lossless by exact Hall.
    unfold text_results, text_expected. rewrite map_app, map_map. reflexivity.
Qed.

(* ------------------------------------------------------------------ *)
(* Alt: ESC followed by an ASCII byte other than ESC [ O keeps the key *)
Lemma alt_key_keeps_key (b : N) rest :
  (b < 128)%N -> b <> 27%N -> b <> 91%N -> b <> 79%N ->
  fst (readEvent (mkR (Byte 27 :: Byte b :: rest) []))
  = REvent (EKey (key_or (ctrlModify (Z.of_N b)) Alt)).
Proof.
  intros Hb H27 H91 H79.
  assert (D27 : decodes 27%N [27%N]) by (apply (readrune_decodes_utf8 27%N); reflexivity).
  assert (Db : decodes b [b]).
  { pose proof (readrune_decodes_utf8 b) as H. unfold encode_rune in H.
    replace (b <? 128)%N with true in H by lia. apply H.
    unfold valid_rune, is_surrogate, MaxRune. lia. }
  unfold readEvent, bind.
  destruct (D27 noTimeout 0%nat (Byte b :: rest) []) as [lg1 E1]; [left; reflexivity|].
  cbn [repeat map app] in E1. rewrite E1.
  unfold dispatch. cbv zeta. change (Z.of_N 27 =? 27) with true. cbv iota.
  unfold bind at 1. unfold next_rune at 1. unfold bind at 1.
  destruct (Db keySeqTimeout 0%nat rest lg1) as [lg2 E2]; [left; reflexivity|].
  cbn [repeat map app] in E2. rewrite E2. unfold ret at 1.
  replace (Z.of_N b =? 27) with false by lia. unfold bind at 1, ret at 1. cbn [fst snd].
  replace (Z.of_N b =? endOfSeq) with false by (unfold endOfSeq, pkg_cli_term.runeEndOfSeq; lia).
  replace (Z.of_N b =? 91) with false by lia.
  replace (Z.of_N b =? 79) with false by lia.
  reflexivity.
Qed.

(* statements as used in props *)
Lemma csi_loop_terminates fuel r nums st :
  (length (rs_in st) + 2 <= fuel)%nat -> fst (csi_loop fuel r nums st) <> CsiFuel.
Proof. intros H. apply csi_loop_fuel. right. exact H. Qed.

Lemma stream_fully_decoded s :
  exists pre lg, run_all s = pre ++ [(RErr ErrEOF, lg)]
    /\ Forall (fun x => fst x <> ROutOfFuel /\ is_eof (fst x) = false /\ log_shape (snd x)) pre
    /\ log_shape lg.
Proof. apply run_events_total. unfold lt. apply le_n. Qed.
