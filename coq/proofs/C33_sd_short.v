(* C33 / styledown — a style line that runs out under a character is an error
   (repair checks/C33.fixes/styledown-parse-short-style-line.diff: the Go code
   now tests len(style) < w before slicing style[:w], so this input class
   returns an error instead of reading past the slice or panicking). *)
From verif Require Import lib.Base lib.Utf8 model.C34_width model.C33 model.C33_styledown.
Open Scope Z_scope.

Lemma render_line_short_style w defs tb r txt sty :
  (length sty < Z.to_nat (w r))%nat ->
  render_line w defs tb (r :: txt) sty = Err.
Proof.
  intros H. cbn [render_line]. destruct (w r =? 0); [reflexivity|].
  apply Nat.ltb_lt in H. rewrite H. reflexivity.
Qed.
