(* C20 -- one-worker peach (broken re-tested after Acquire) behaves exactly like
   each: same callbacks run, nothing starts after a break / failure, same output
   sequence, same exceptions.  Invariants over the step relation, all schedules. *)
From verif Require Import lib.Base model.C20_Peach proofs.C20_proofs.
From Coq Require Import Permutation Arith.
Open Scope nat_scope.

(* ---- each, characterised by "no breaker before input i" ---- *)
Definition nbb (cb : callback) (i : nat) : bool :=
  forallb (fun j => negb (is_breaker (cb_kind (cb j)))) (seq 0 i).

Lemma nbb_S cb i : nbb cb (S i) = nbb cb i && negb (is_breaker (cb_kind (cb i))).
Proof. unfold nbb. rewrite seq_S, forallb_app. cbn. now rewrite andb_true_r. Qed.

Lemma nbb_mono cb i k : i <= k -> nbb cb k = true -> nbb cb i = true.
Proof.
  induction 1 as [|k Hle IH]; [auto|]. rewrite nbb_S. intros H.
  apply andb_true_iff in H as (H & _). now apply IH.
Qed.

Lemma nbb_spec cb i :
  nbb cb i = true <-> forall j, j < i -> is_breaker (cb_kind (cb j)) = false.
Proof.
  unfold nbb. rewrite forallb_forall. split.
  - intros H j Hj. apply negb_true_iff. apply H. apply in_seq. lia.
  - intros H j Hj. apply in_seq in Hj. apply negb_true_iff. apply H. lia.
Qed.

Lemma each_broken cb k : e_broken (each_pre cb k) = negb (nbb cb k).
Proof.
  induction k as [|k IH]; [reflexivity|]. cbn [each_pre]. rewrite nbb_S, IH.
  destruct (nbb cb k); cbn; [now rewrite negb_involutive|exact IH].
Qed.

Lemma each_out cb k :
  e_out (each_pre cb k) = flat_map (fun i => if nbb cb i then cb_outs (cb i) else []) (seq 0 k).
Proof.
  induction k as [|k IH]; [reflexivity|]. cbn [each_pre]. rewrite seq_S, flat_map_app. cbn [flat_map Nat.add].
  rewrite app_nil_r. pose proof (each_broken cb k) as Hb.
  destruct (e_broken (each_pre cb k)).
  - symmetry in Hb. apply negb_true_iff in Hb. rewrite Hb, app_nil_r. exact IH.
  - symmetry in Hb. apply negb_false_iff in Hb. rewrite Hb. cbn. now rewrite IH.
Qed.

Lemma each_errs cb k :
  e_errs (each_pre cb k) =
  flat_map (fun i => if nbb cb i then fail_of (cb_kind (cb i)) else []) (seq 0 k).
Proof.
  induction k as [|k IH]; [reflexivity|]. cbn [each_pre]. rewrite seq_S, flat_map_app. cbn [flat_map Nat.add].
  rewrite app_nil_r. pose proof (each_broken cb k) as Hb.
  destruct (e_broken (each_pre cb k)).
  - symmetry in Hb. apply negb_true_iff in Hb. rewrite Hb, app_nil_r. exact IH.
  - symmetry in Hb. apply negb_false_iff in Hb. rewrite Hb. cbn. now rewrite IH.
Qed.

Lemma each_m cb k i : (i <? e_m (each_pre cb k)) = (i <? k) && nbb cb i.
Proof.
  induction k as [|k IH]; [reflexivity|]. cbn [each_pre].
  pose proof (each_broken cb k) as Hb.
  destruct (e_broken (each_pre cb k)).
  - symmetry in Hb. apply negb_true_iff in Hb. rewrite IH.
    destruct (Nat.ltb_spec i k) as [H1|H1], (Nat.ltb_spec i (S k)) as [H2|H2]; try lia; try reflexivity.
    assert (i = k) by lia. subst. now rewrite Hb.
  - symmetry in Hb. apply negb_false_iff in Hb. cbn [e_m].
    destruct (Nat.ltb_spec i (S k)) as [H2|H2]; [|reflexivity].
    rewrite (nbb_mono cb i k) by (lia || assumption). reflexivity.
Qed.

Lemma nbb_false_ex cb i :
  nbb cb i = false -> exists k, k < i /\ is_breaker (cb_kind (cb k)) = true.
Proof.
  induction i as [|i IH]; [discriminate|]. rewrite nbb_S. intros H.
  apply andb_false_iff in H as [H|H].
  - destruct (IH H) as (k & Hk & Hb). exists k. split; [lia|assumption].
  - exists i. split; [lia|]. now apply negb_false_iff in H.
Qed.

Lemma each_calls_spec cb n i : each_calls cb n i = if (i <? n) && nbb cb i then 1 else 0.
Proof. unfold each_calls. now rewrite each_m. Qed.

(* appending to the contribution of input i when every later input contributes nothing *)
Lemma contrib_nil {St} (g : St -> nat -> list N) f l :
  (forall j, In j l -> g (f j) j = []) -> contrib g f l = [].
Proof.
  unfold contrib. induction l as [|a l IH]; intros H; cbn [flat_map]; [reflexivity|].
  rewrite H by (now left). rewrite IH; [reflexivity|]. intros; apply H; now right.
Qed.

Lemma contrib_upd_app_seq {St} (g : St -> nat -> list N) f i v xs n :
  i < n -> g v i = g (f i) i ++ xs ->
  (forall j, i < j -> j < n -> g (f j) j = []) ->
  contrib g (upd f i v) (seq 0 n) = contrib g f (seq 0 n) ++ xs.
Proof.
  intros Hi Hg Hl.
  assert (Hs : seq 0 n = seq 0 i ++ i :: seq (S i) (n - S i)).
  { replace n with (i + S (n - S i)) at 1 by lia. rewrite seq_app. reflexivity. }
  rewrite Hs. unfold contrib. rewrite !flat_map_app. cbn [flat_map].
  change (flat_map (fun j => g (upd f i v j) j) (seq 0 i)) with (contrib g (upd f i v) (seq 0 i)).
  change (flat_map (fun j => g (upd f i v j) j) (seq (S i) (n - S i))) with (contrib g (upd f i v) (seq (S i) (n - S i))).
  rewrite !contrib_upd_notin by (rewrite in_seq; lia).
  rewrite upd_same, Hg.
  assert (Hz : contrib g f (seq (S i) (n - S i)) = []).
  { apply contrib_nil. intros j Hj. apply in_seq in Hj. apply Hl; lia. }
  unfold contrib in *. rewrite Hz. rewrite !app_nil_r. now rewrite !app_assoc.
Qed.

Section P1.
Context (c : config) (cb : callback) (n : nat).
Hypothesis Hb1 : bound c = Some 1.
Hypothesis Hfix : fix_recheck c = true.

Definition spawned (w : wstat) : bool := holder w || match w with Gone => true | _ => false end.
Definition brk (i : nat) : bool := is_breaker (cb_kind (cb i)).

(* a: a posted breaker has set broken *)
Definition inv_a (s : state) : Prop :=
  forall i, posted (st s i) = true -> brk i = true -> broken s = true.

Lemma a_step s l s' : inv_a s -> step c cb n s l = Some s' -> inv_a s'.
Proof.
  intros Ha H.
  step_inv H; intros ii; cbn; unfold upd; try case_upd; subst; intros Hp Hk;
  try discriminate; try reflexivity; try assumption;
  try (apply (Ha ii); assumption);
  try (rewrite (Ha ii Hp Hk); reflexivity);
  try (refine (Ha _ _ Hk); match goal with E : st s _ = _ |- _ => rewrite E end; reflexivity).
  unfold brk in Hk. rewrite Hk. apply orb_true_r.
Qed.

(* no live worker while the dispatcher holds the only token *)
Lemma no_holder_at_tok s :
  inv c cb n s -> cancelled s = false -> tok (pc s) = 1 ->
  forall i, i < n -> holder (st s i) = false.
Proof.
  intros (_ & _ & _ & Hh & _) Hc Ht i Hi.
  destruct (Hh (or_intror Hc)) as (_ & Hb). destruct (Hb 1 Hb1) as (He & Hle).
  apply (countf_zero holder (st s) n); [lia|assumption].
Qed.

(* b: between the re-test and go, broken is still clear *)
Definition inv_b (s : state) : Prop :=
  cancelled s = false -> forall i, pc s = DSpawn i -> broken s = false.

Lemma b_step s l s' : inv c cb n s -> inv_b s -> step c cb n s l = Some s' -> inv_b s'.
Proof.
  intros Hinv Hb H Hc' i' Hpc'.
  pose proof (no_holder_at_tok s Hinv) as Hnh.
  step_inv H; cbn in *; try discriminate; try congruence;
  try (inversion Hpc'; subst; clear Hpc'); try assumption.
  (* a worker moved while pc = DSpawn: impossible, no live worker *)
  all: try (match goal with E : st ?s0 ?i = _, Hp : pc ?s0 = DSpawn _ |- _ =>
              specialize (Hnh Hc' ltac:(now rewrite Hp) i ltac:(lia)); rewrite E in Hnh; discriminate end).
  all: try (apply (Hb Hc' _ Hpc')).
Qed.

(* e: when input j has a worker, every earlier input is finished (one token) *)
Definition inv_e (s : state) : Prop :=
  cancelled s = false -> forall i j, i < j -> spawned (st s j) = true ->
  st s i = Gone \/ st s i = Skipped.

Lemma e_step s l s' : inv c cb n s -> inv_e s -> step c cb n s l = Some s' -> inv_e s'.
Proof.
  intros Hinv He H Hc' i j Hij Hsp.
  pose proof (no_holder_at_tok s Hinv) as Hnh. destruct Hinv as ((Hpc & Hp & Hnp) & _).
  step_inv H; cbn in *; try discriminate;
  try (exact (He Hc' i j Hij Hsp));
  try match goal with E : pc s = _ |- _ => rewrite E in * end; cbn in Hpc, Hp, Hnp, Hnh;
  unfold upd in *; revert Hsp;
  match goal with |- context [i =? ?K] =>
    destruct (Nat.eqb_spec i K) as [Ei|Ei]; destruct (Nat.eqb_spec j K) as [Ej|Ej] end;
  intros Hsp; subst; try lia; try discriminate;
  try (exact (He Hc' _ _ Hij Hsp));
  (* the changed input is the earlier one: it cannot have been live / pending *)
  try (exfalso; pose proof (He Hc' _ _ Hij Hsp) as Hx;
       first [ match goal with E : st s _ = _ |- _ => rewrite E in Hx end | rewrite Hp in Hx by lia ];
       destruct Hx; discriminate);
  (* the changed input is the later one, a worker moved: it was spawned before *)
  try (apply (He Hc' _ _ Hij); match goal with E : st s _ = _ |- _ => rewrite E end; reflexivity);
  (* go: every earlier input is neither pending nor live *)
  try (specialize (Hnh Hc' eq_refl i ltac:(lia)); specialize (Hnp i ltac:(lia));
       destruct (st s i); cbn in *; try discriminate; try congruence; auto).
Qed.

(* c: nothing after a posted breaker has a worker *)
Definition inv_c (s : state) : Prop :=
  cancelled s = false -> forall i j, i < j -> posted (st s i) = true -> brk i = true ->
  st s j = Pending \/ st s j = Skipped.

Lemma c_step s l s' :
  inv c cb n s -> inv_a s -> inv_b s -> inv_e s -> inv_c s ->
  step c cb n s l = Some s' -> inv_c s'.
Proof.
  intros Hinv Ha Hb He Hcc H Hc' i j Hij Hpo Hbk.
  destruct Hinv as ((Hpc & Hp & Hnp) & _).
  step_inv H; cbn in *; try discriminate;
  try (exact (Hcc Hc' i j Hij Hpo Hbk));
  try match goal with E : pc s = _ |- _ => rewrite E in * end; cbn in Hpc, Hp, Hnp;
  unfold upd in *; revert Hpo;
  match goal with |- context [j =? ?K] =>
    destruct (Nat.eqb_spec i K) as [Ei|Ei]; destruct (Nat.eqb_spec j K) as [Ej|Ej] end;
  intros Hpo; subst; try lia; try discriminate; auto;
  try (exact (Hcc Hc' _ _ Hij Hpo Hbk));
  (* the later input got a worker although a breaker had posted: broken was set *)
  try (exfalso; pose proof (Ha _ Hpo Hbk) as Hbr;
       match goal with Epc : pc s = DSpawn _ |- _ => rewrite (Hb Hc' _ Epc) in Hbr end; discriminate);
  (* the later input's worker moved: it had a worker before *)
  try (exfalso; pose proof (Hcc Hc' _ _ Hij Hpo Hbk) as Hx;
       first [ match goal with E : st s _ = _ |- _ => rewrite E in Hx end | rewrite Hp in Hx by lia ];
       destruct Hx; discriminate);
  (* the earlier input posts now / moves on: a later input with a worker would
     mean the earlier one is finished *)
  try (destruct (st s j) eqn:Ej'; auto; exfalso;
       pose proof (He Hc' _ j Hij ltac:(rewrite Ej'; reflexivity)) as Hx;
       match goal with E : st s _ = _ |- _ => rewrite E in Hx end; destruct Hx; discriminate).
Qed.

Definition inv1 (s : state) : Prop := inv_a s /\ inv_b s /\ inv_e s /\ inv_c s.

Lemma inv1_reach s : reach c cb n s -> inv1 s.
Proof.
  induction 1 as [|s l s' Hr (Ha & Hb & He & Hc) H].
  - repeat split; intro; intros; cbn in *; try discriminate; auto.
  - pose proof (inv_reach c cb n s Hr) as Hinv.
    repeat split.
    + eapply a_step; eassumption.
    + eapply b_step; eassumption.
    + eapply e_step; eassumption.
    + eapply c_step; eassumption.
Qed.

(* no callback is entered for an input after one whose callback broke or failed
   and returned: as in each *)
Theorem peach1_no_callback_after_break s :
  reach c cb n s -> cancelled s = false ->
  forall i j, i < j -> posted (st s i) = true -> is_breaker (cb_kind (cb i)) = true ->
  calls s j = 0.
Proof.
  intros Hr Hc i j Hij Hpo Hbk.
  destruct (inv1_reach s Hr) as (_ & _ & _ & Hcc).
  destruct (inv_reach c cb n s Hr) as (_ & Hcalls & _).
  rewrite Hcalls. destruct (Hcc Hc i j Hij Hpo Hbk) as [-> | ->]; reflexivity.
Qed.

(* g: once an input has been skipped every later one is pending or skipped *)
Definition inv_g (s : state) : Prop :=
  cancelled s = false -> forall j i, j < i -> st s j = Skipped ->
  st s i = Pending \/ st s i = Skipped.

Lemma g_step s l s' :
  inv c cb n s -> inv_b s -> inv_g s -> step c cb n s l = Some s' -> inv_g s'.
Proof.
  intros Hinv Hb Hg H Hc' j i Hji Hsk.
  destruct Hinv as ((Hpc & Hp & Hnp) & _ & _ & _ & _ & _ & (Hbs & _)).
  step_inv H; cbn in *; try discriminate;
  try (exact (Hg Hc' j i Hji Hsk));
  try match goal with E : pc s = _ |- _ => rewrite E in * end; cbn in Hpc, Hp, Hnp;
  unfold upd in *; revert Hsk;
  match goal with |- context [i =? ?K] =>
    destruct (Nat.eqb_spec i K) as [Ei|Ei]; destruct (Nat.eqb_spec j K) as [Ej|Ej] end;
  intros Hsk; subst; try lia; try discriminate; auto;
  try (exact (Hg Hc' _ _ Hji Hsk));
  (* the earlier input is skipped now: everything later is still pending *)
  try (left; apply Hp; lia);
  (* the later input gets a worker although an earlier one was skipped: broken is set *)
  try (exfalso; pose proof (Hbs _ Hsk) as Hbr;
       match goal with Epc : pc s = DSpawn _ |- _ => rewrite (Hb Hc' _ Epc) in Hbr end; discriminate);
  (* the later input's worker moved: it cannot exist *)
  try (exfalso; pose proof (Hg Hc' _ _ Hji Hsk) as Hx;
       match goal with E : st s _ = _ |- _ => rewrite E in Hx end; destruct Hx; discriminate).
Qed.

(* h: broken is set only by a callback that broke or failed and returned *)
Definition inv_h (s : state) : Prop :=
  cancelled s = false -> broken s = true -> exists k, posted (st s k) = true /\ brk k = true.

Lemma posted_upd_keep (f : nat -> wstat) K X k :
  posted (f k) = true -> (posted (f K) = false \/ posted X = true) -> posted (upd f K X k) = true.
Proof.
  intros Hk HK. unfold upd. destruct (Nat.eqb_spec k K) as [->|]; [|exact Hk].
  destruct HK as [HK|HK]; [congruence|exact HK].
Qed.

Lemma h_step s l s' : inv c cb n s -> inv_h s -> step c cb n s l = Some s' -> inv_h s'.
Proof.
  intros Hinv Hh H Hc' Hbr.
  destruct Hinv as ((Hpc & Hp & Hnp) & _).
  step_inv H; cbn in *; try discriminate; try congruence;
  try (exact (Hh Hc' Hbr));
  try match goal with E : pc s = _ |- _ => rewrite E in * end; cbn in Hpc, Hp, Hnp;
  (* the callback of a breaker returned: it is the witness if broken was clear *)
  try (match goal with E : st s ?i = Running _ |- context [Posted] =>
         destruct (broken s) eqn:Eb;
         [ destruct (Hh Hc' Eb) as (kk & Hk1 & Hk2); exists kk; split; [|exact Hk2];
           apply posted_upd_keep; [exact Hk1|left; rewrite E; reflexivity]
         | exists i; split; [now rewrite upd_same|exact Hbr] ]
       end);
  (* otherwise the old witness is still posted *)
  try (destruct (Hh Hc' Hbr) as (kk & Hk1 & Hk2); exists kk; split; [|exact Hk2];
       apply posted_upd_keep; [exact Hk1|];
       first [ right; reflexivity
             | left; match goal with E : st s _ = _ |- _ => rewrite E end; reflexivity
             | left; rewrite Hp by lia; reflexivity ]).
Qed.

(* So / Se: with one worker the shared output and the error list are in input order *)
Definition inv_so (s : state) : Prop :=
  cancelled s = false -> out s = contrib (emitted cb) (st s) (seq 0 n).
Definition inv_se (s : state) : Prop :=
  cancelled s = false -> errs s = contrib (reported cb) (st s) (seq 0 n).

(* while input i has a live worker no later input has been given one *)
Lemma later_not_spawned s i :
  inv_e s -> cancelled s = false -> holder (st s i) = true ->
  forall j, i < j -> st s j = Pending \/ st s j = Skipped.
Proof.
  intros He Hc Hh j Hij. destruct (spawned (st s j)) eqn:Es.
  - exfalso. destruct (He Hc i j Hij Es) as [Hx|Hx]; rewrite Hx in Hh; discriminate.
  - destruct (st s j); cbn in Es; try discriminate; auto.
Qed.

Lemma so_step s l s' :
  inv c cb n s -> inv_e s -> inv_so s -> step c cb n s l = Some s' -> inv_so s'.
Proof.
  intros Hinv He Ho H Hc'. pose proof (later_not_spawned s) as Hl.
  destruct Hinv as ((Hpc & Hp & Hnp) & _). unfold inv_so in Ho.
  step_inv H; cbn [cancelled set_pc set_st set_held set_wg set_broken set_errs set_out set_calls
                   set_cancelled set_panicked] in Hc'; try discriminate;
  try (match goal with A : cancelled s = true, B : cancelled s = false |- _ =>
         rewrite A in B; discriminate end);
  (first [specialize (Ho Hc') | specialize (Ho eq_refl)]);
  try match goal with E : pc s = _ |- _ => rewrite E in * end; cbn in Hpc, Hp, Hnp;
  cbn [out errs st set_pc set_st set_held set_wg set_broken set_errs set_out set_calls
       set_cancelled set_panicked]; try assumption;
  first
  [ rewrite contrib_upd_same; [assumption|];
    first [ match goal with E : st s _ = _ |- _ => rewrite E end | rewrite Hp by lia ];
    cbn [emitted]; first [reflexivity | symmetry; apply firstn_none_all; assumption]
  | match goal with E : st s ?i = Running ?k, Hn : nth_error _ ?k = Some ?v |- _ =>
      rewrite (contrib_upd_app_seq (emitted cb) (st s) i (Running (S k)) [v] n);
      [ now rewrite Ho
      | lia
      | rewrite E; cbn [emitted]; apply firstn_succ_nth; assumption
      | intros j Hij _; destruct (Hl i He Hc' ltac:(now rewrite E) j Hij) as [Hx|Hx];
        rewrite Hx; reflexivity ]
    end ].
Qed.

Lemma se_step s l s' :
  inv c cb n s -> inv_e s -> inv_se s -> step c cb n s l = Some s' -> inv_se s'.
Proof.
  intros Hinv He Ho H Hc'. pose proof (later_not_spawned s) as Hl.
  destruct Hinv as ((Hpc & Hp & Hnp) & _). unfold inv_se in Ho.
  step_inv H; cbn [cancelled set_pc set_st set_held set_wg set_broken set_errs set_out set_calls
                   set_cancelled set_panicked] in Hc'; try discriminate;
  try (match goal with A : cancelled s = true, B : cancelled s = false |- _ =>
         rewrite A in B; discriminate end);
  (first [specialize (Ho Hc') | specialize (Ho eq_refl)]);
  try match goal with E : pc s = _ |- _ => rewrite E in * end; cbn in Hpc, Hp, Hnp;
  cbn [out errs st set_pc set_st set_held set_wg set_broken set_errs set_out set_calls
       set_cancelled set_panicked]; try assumption;
  first
  [ rewrite contrib_upd_same; [assumption|];
    first [ match goal with E : st s _ = _ |- _ => rewrite E end | rewrite Hp by lia ];
    reflexivity
  | match goal with E : st s ?i = Running ?k |- _ =>
      rewrite (contrib_upd_app_seq (reported cb) (st s) i Posted (fail_of (cb_kind (cb i))) n);
      [ now rewrite Ho
      | lia
      | rewrite E; reflexivity
      | intros j Hij _; destruct (Hl i He Hc' ltac:(now rewrite E) j Hij) as [Hx|Hx];
        rewrite Hx; reflexivity ]
    end ].
Qed.

Definition inv2 (s : state) : Prop := inv_g s /\ inv_h s /\ inv_so s /\ inv_se s.

Lemma inv2_reach s : reach c cb n s -> inv2 s.
Proof.
  induction 1 as [|s l s' Hr (Hg & Hh & Ho & Hs) H].
  - repeat split; intro; intros; cbn in *; try discriminate; auto;
      rewrite contrib_const_nil by reflexivity; reflexivity.
  - pose proof (inv_reach c cb n s Hr) as Hinv.
    destruct (inv1_reach s Hr) as (Ha & Hb & He & Hc).
    repeat split.
    + eapply g_step; eassumption.
    + eapply h_step; eassumption.
    + eapply so_step; eassumption.
    + eapply se_step; eassumption.
Qed.

(* ---- when peach has returned: exactly the inputs each runs were run ---- *)
Lemma done_calls s :
  reach c cb n s -> cancelled s = false -> pc s = DDone ->
  forall i, calls s i = if (i <? n) && nbb cb i then 1 else 0.
Proof.
  intros Hr Hc Hpc i.
  pose proof (inv_reach c cb n s Hr) as Hinv.
  destruct (inv1_reach s Hr) as (Ha & Hb & He & Hcc).
  destruct (inv2_reach s Hr) as (Hg & Hh & _ & _).
  pose proof (done_finished c cb n s Hinv Hpc) as Hfin.
  destruct Hinv as ((_ & Hp & Hnp) & Hcalls & _ & _ & _ & _ & (Hsk & _)).
  rewrite Hpc in Hp, Hnp. cbn in Hp, Hnp. rewrite Hcalls.
  destruct (Nat.ltb_spec i n) as [Hi|Hi]; cbn [andb].
  2:{ now rewrite Hp. }
  destruct (nbb cb i) eqn:En.
  - (* no breaker before i: it was not skipped *)
    specialize (Hfin i Hi). destruct (st s i) eqn:Ei; cbn in Hfin |- *; try discriminate; try reflexivity.
    exfalso. destruct (Hh Hc (Hsk i Ei)) as (k & Hk1 & Hk2).
    assert (Hki : k < i).
    { destruct (Nat.lt_trichotomy k i) as [|[->|Hgt]]; [assumption| |].
      - rewrite Ei in Hk1. discriminate.
      - destruct (Hg Hc i k Hgt Ei) as [Hx|Hx]; rewrite Hx in Hk1; discriminate. }
    rewrite nbb_spec in En. unfold brk in Hk2. rewrite (En k Hki) in Hk2. discriminate.
  - (* a breaker before i: i was never started *)
    destruct (started (st s i)) eqn:Es; [|reflexivity]. exfalso.
    destruct (nbb_false_ex cb i En) as (k & Hki & Hkb).
    pose proof (Hfin k ltac:(lia)) as Hfk.
    assert (Hx : st s i = Pending \/ st s i = Skipped).
    { destruct (st s k) eqn:Ek; cbn in Hfk; try discriminate.
      - exact (Hg Hc k i Hki Ek).
      - apply (Hcc Hc k i Hki); [now rewrite Ek|exact Hkb].
      - apply (Hcc Hc k i Hki); [now rewrite Ek|exact Hkb]. }
    destruct Hx as [Hx|Hx]; rewrite Hx in Es; discriminate.
Qed.

(* with one worker, peach behaves exactly like each: same callbacks run (hence
   nothing after a break / failure), same output sequence, same exceptions *)
Theorem peach1_equiv_each_proved s :
  reach c cb n s -> pc s = DDone -> cancelled s = false ->
  (forall i, calls s i = each_calls cb n i)
  /\ out s = e_out (each_pre cb n) /\ errs s = e_errs (each_pre cb n).
Proof.
  intros Hr Hpc Hc.
  pose proof (done_calls s Hr Hc Hpc) as Hcalls.
  pose proof (inv_reach c cb n s Hr) as Hinv.
  pose proof (done_finished c cb n s Hinv Hpc) as Hfin.
  destruct Hinv as (_ & Hcs & _).
  destruct (inv2_reach s Hr) as (_ & _ & Ho & He).
  assert (Hst : forall i, i < n -> started (st s i) = nbb cb i).
  { intros i Hi. specialize (Hcalls i). rewrite Hcs in Hcalls.
    apply Nat.ltb_lt in Hi. rewrite Hi in Hcalls. cbn in Hcalls.
    destruct (started (st s i)), (nbb cb i); congruence. }
  split; [|split].
  - intros i. rewrite each_calls_spec. apply Hcalls.
  - rewrite (Ho Hc), each_out. unfold contrib. apply flat_map_ext_in'.
    intros i Hi. apply in_seq in Hi. specialize (Hst i ltac:(lia)). specialize (Hfin i ltac:(lia)).
    rewrite <- Hst. destruct (st s i); cbn in *; congruence.
  - rewrite (He Hc), each_errs. unfold contrib. apply flat_map_ext_in'.
    intros i Hi. apply in_seq in Hi. specialize (Hst i ltac:(lia)). specialize (Hfin i ltac:(lia)).
    rewrite <- Hst. unfold reported. destruct (st s i); cbn in *; congruence.
Qed.
End P1.

(* the documented behaviour, for the code as it is now *)
Theorem peach1_equiv_each : peach1_equiv_each_stmt (faithful (Some 1)).
Proof.
  intros cb n s Hr Hpc Hc.
  exact (peach1_equiv_each_proved (faithful (Some 1)) cb n eq_refl eq_refl s Hr Hpc Hc).
Qed.

(* non-vacuity witness: callback 0 breaks, 3 inputs; the schedule that used to
   start callback 1 (broken tested before blocking in Acquire) now skips it *)
Definition w_cb : callback :=
  fun i => if i =? 0 then mkCb [1%N] KBreak else mkCb [N.of_nat (100 * i + 1)] KNormal.
Definition w_sched : list label :=
  [LDisp; LDisp; LDisp; LDisp;   (* check 0, Acquire, re-test, go: worker 0 *)
   LDisp;                        (* check 1: broken is still 0; now blocked in Acquire *)
   LWork 0; LWork 0; LWork 0;    (* enter, output, return: broken := 1 *)
   LWork 0; LWork 0;             (* wg.Done, Release *)
   LDisp;                        (* Acquire succeeds *)
   LDisp;                        (* re-test: broken, token given back, input 1 skipped *)
   LDisp;                        (* check 2: skipped *)
   LDisp; LDisp].                (* end of inputs, Wait *)

(* ---- why the worker must record broken BEFORE it gives the slot back ----
   Characterisation (a regression lemma, not a finding): in the variant whose
   worker releases first ([step_work_swapped]) the dispatcher's re-test after
   Acquire can still see broken = 0, so with one worker a callback runs after
   one that broke -- which [peach1_equiv_each] excludes for the real order. *)
Definition w_sched_swapped : list label :=
  [LDisp; LDisp; LDisp; LDisp;   (* check 0, Acquire, re-test, go: worker 0 *)
   LDisp;                        (* check 1: broken = 0; blocked in Acquire *)
   LWork 0; LWork 0;             (* enter, output *)
   LWork 0;                      (* callback 0 returns (break): slot released FIRST *)
   LDisp; LDisp;                 (* Acquire succeeds; re-test: broken is still 0 *)
   LWork 0;                      (* only now: broken := 1 *)
   LDisp;                        (* go: worker 1 -- one callback too many *)
   LWork 1; LWork 1; LWork 1; LWork 1; LWork 1;
   LWork 0;                      (* wg.Done of worker 0 *)
   LDisp; LDisp; LDisp].         (* check 2: skipped; end of inputs; Wait *)

Lemma release_before_record_admits_extra_callback :
  exists s, exec_swapped (faithful (Some 1)) w_cb 3 init w_sched_swapped = Some s
    /\ pc s = DDone /\ cancelled s = false /\ panicked s = false
    /\ calls s 0 = 1 /\ calls s 1 = 1 /\ calls s 2 = 0
    /\ each_calls w_cb 3 1 = 0.
Proof.
  destruct (exec_swapped (faithful (Some 1)) w_cb 3 init w_sched_swapped) as [s|] eqn:E;
    [|vm_compute in E; discriminate].
  exists s. split; [reflexivity|].
  vm_compute in E. inversion E; subst. cbn. repeat split; reflexivity.
Qed.
