(* C20 -- one-worker peach with the REPAIRED dispatcher (broken re-tested after
   Acquire): no callback is entered for an input that comes after one whose
   callback broke or failed.  Invariants over the step relation, all schedules. *)
From verif Require Import lib.Base model.C20_Peach proofs.C20_proofs.
From Coq Require Import Permutation Arith.
Open Scope nat_scope.

Section P1.
Context (c : config) (cb : callback) (n : nat).
Hypothesis Hb1 : bound c = Some 1.
Hypothesis Hfix : fix_recheck c = true.

Definition spawned (w : wstat) : bool := holder w || match w with Gone => true | _ => false end.
Definition brk (i : nat) : bool := is_breaker (cb_kind (cb i)).

(* a: a posted breaker has set broken *)
Definition inv_a (s : state) : Prop :=
  forall i, posted (st s i) = true -> brk i = true -> broken s = true.

Lemma a_step s l s' : inv_a s -> step c cb n s l = Some s' -> inv_a s'.
Proof.
  intros Ha H.
  step_inv H; intros ii; cbn; unfold upd; try case_upd; subst; intros Hp Hk;
  try discriminate; try reflexivity; try assumption;
  try (apply (Ha ii); assumption);
  try (rewrite (Ha ii Hp Hk); reflexivity);
  try (refine (Ha _ _ Hk); match goal with E : st s _ = _ |- _ => rewrite E end; reflexivity).
  unfold brk in Hk. rewrite Hk. apply orb_true_r.
Qed.

(* no live worker while the dispatcher holds the only token *)
Lemma no_holder_at_tok s :
  inv c cb n s -> cancelled s = false -> tok (pc s) = 1 ->
  forall i, i < n -> holder (st s i) = false.
Proof.
  intros (_ & _ & _ & Hh & _) Hc Ht i Hi.
  destruct (Hh (or_intror Hc)) as (_ & Hb). destruct (Hb 1 Hb1) as (He & Hle).
  apply (countf_zero holder (st s) n); [lia|assumption].
Qed.

(* b: between the re-test and go, broken is still clear *)
Definition inv_b (s : state) : Prop :=
  cancelled s = false -> forall i, pc s = DSpawn i -> broken s = false.

Lemma b_step s l s' : inv c cb n s -> inv_b s -> step c cb n s l = Some s' -> inv_b s'.
Proof.
  intros Hinv Hb H Hc' i' Hpc'.
  pose proof (no_holder_at_tok s Hinv) as Hnh.
  step_inv H; cbn in *; try discriminate; try congruence;
  try (inversion Hpc'; subst; clear Hpc'); try assumption.
  (* a worker moved while pc = DSpawn: impossible, no live worker *)
  all: try (match goal with E : st ?s0 ?i = _, Hp : pc ?s0 = DSpawn _ |- _ =>
              specialize (Hnh Hc' ltac:(now rewrite Hp) i ltac:(lia)); rewrite E in Hnh; discriminate end).
  all: try (apply (Hb Hc' _ Hpc')).
Qed.

(* e: when input j has a worker, every earlier input is finished (one token) *)
Definition inv_e (s : state) : Prop :=
  cancelled s = false -> forall i j, i < j -> spawned (st s j) = true ->
  st s i = Gone \/ st s i = Skipped.

Lemma e_step s l s' : inv c cb n s -> inv_e s -> step c cb n s l = Some s' -> inv_e s'.
Proof.
  intros Hinv He H Hc' i j Hij Hsp.
  pose proof (no_holder_at_tok s Hinv) as Hnh. destruct Hinv as ((Hpc & Hp & Hnp) & _).
  step_inv H; cbn in *; try discriminate;
  try (exact (He Hc' i j Hij Hsp));
  try match goal with E : pc s = _ |- _ => rewrite E in * end; cbn in Hpc, Hp, Hnp, Hnh;
  unfold upd in *; revert Hsp;
  match goal with |- context [i =? ?K] =>
    destruct (Nat.eqb_spec i K) as [Ei|Ei]; destruct (Nat.eqb_spec j K) as [Ej|Ej] end;
  intros Hsp; subst; try lia; try discriminate;
  try (exact (He Hc' _ _ Hij Hsp));
  (* the changed input is the earlier one: it cannot have been live / pending *)
  try (exfalso; pose proof (He Hc' _ _ Hij Hsp) as Hx;
       first [ match goal with E : st s _ = _ |- _ => rewrite E in Hx end | rewrite Hp in Hx by lia ];
       destruct Hx; discriminate);
  (* the changed input is the later one, a worker moved: it was spawned before *)
  try (apply (He Hc' _ _ Hij); match goal with E : st s _ = _ |- _ => rewrite E end; reflexivity);
  (* go: every earlier input is neither pending nor live *)
  try (specialize (Hnh Hc' eq_refl i ltac:(lia)); specialize (Hnp i ltac:(lia));
       destruct (st s i); cbn in *; try discriminate; try congruence; auto).
Qed.

(* c: nothing after a posted breaker has a worker *)
Definition inv_c (s : state) : Prop :=
  cancelled s = false -> forall i j, i < j -> posted (st s i) = true -> brk i = true ->
  st s j = Pending \/ st s j = Skipped.

Lemma c_step s l s' :
  inv c cb n s -> inv_a s -> inv_b s -> inv_e s -> inv_c s ->
  step c cb n s l = Some s' -> inv_c s'.
Proof.
  intros Hinv Ha Hb He Hcc H Hc' i j Hij Hpo Hbk.
  destruct Hinv as ((Hpc & Hp & Hnp) & _).
  step_inv H; cbn in *; try discriminate;
  try (exact (Hcc Hc' i j Hij Hpo Hbk));
  try match goal with E : pc s = _ |- _ => rewrite E in * end; cbn in Hpc, Hp, Hnp;
  unfold upd in *; revert Hpo;
  match goal with |- context [j =? ?K] =>
    destruct (Nat.eqb_spec i K) as [Ei|Ei]; destruct (Nat.eqb_spec j K) as [Ej|Ej] end;
  intros Hpo; subst; try lia; try discriminate; auto;
  try (exact (Hcc Hc' _ _ Hij Hpo Hbk));
  (* the later input got a worker although a breaker had posted: broken was set *)
  try (exfalso; pose proof (Ha _ Hpo Hbk) as Hbr;
       match goal with Epc : pc s = DSpawn _ |- _ => rewrite (Hb Hc' _ Epc) in Hbr end; discriminate);
  (* the later input's worker moved: it had a worker before *)
  try (exfalso; pose proof (Hcc Hc' _ _ Hij Hpo Hbk) as Hx;
       first [ match goal with E : st s _ = _ |- _ => rewrite E in Hx end | rewrite Hp in Hx by lia ];
       destruct Hx; discriminate);
  (* the earlier input posts now / moves on: a later input with a worker would
     mean the earlier one is finished *)
  try (destruct (st s j) eqn:Ej'; auto; exfalso;
       pose proof (He Hc' _ j Hij ltac:(rewrite Ej'; reflexivity)) as Hx;
       match goal with E : st s _ = _ |- _ => rewrite E in Hx end; destruct Hx; discriminate).
Qed.

Definition inv1 (s : state) : Prop := inv_a s /\ inv_b s /\ inv_e s /\ inv_c s.

Lemma inv1_reach s : reach c cb n s -> inv1 s.
Proof.
  induction 1 as [|s l s' Hr (Ha & Hb & He & Hc) H].
  - repeat split; intro; intros; cbn in *; try discriminate; auto.
  - pose proof (inv_reach c cb n s Hr) as Hinv.
    repeat split.
    + eapply a_step; eassumption.
    + eapply b_step; eassumption.
    + eapply e_step; eassumption.
    + eapply c_step; eassumption.
Qed.

(* no callback is entered for an input after one whose callback broke or failed
   and returned: as in each *)
Theorem peach1_no_callback_after_break_repaired s :
  reach c cb n s -> cancelled s = false ->
  forall i j, i < j -> posted (st s i) = true -> is_breaker (cb_kind (cb i)) = true ->
  calls s j = 0.
Proof.
  intros Hr Hc i j Hij Hpo Hbk.
  destruct (inv1_reach s Hr) as (_ & _ & _ & Hcc).
  destruct (inv_reach c cb n s Hr) as (_ & Hcalls & _).
  rewrite Hcalls. destruct (Hcc Hc i j Hij Hpo Hbk) as [-> | ->]; reflexivity.
Qed.
End P1.
