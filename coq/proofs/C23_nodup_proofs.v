(* C23 — each path is produced once when the pattern has at most one **.
   Counting argument: below [dir] a result of the cut inside the ** has more
   slashes than a result of the cut at the following Slash or of the final
   match; inside one cut, distinct directory names give distinct prefixes. *)
From verif Require Import lib.Base lib.Utf8 model.C23 proofs.C23_proofs proofs.C23_glob_proofs.
Open Scope nat_scope.

Definition nsl (q : bytes) : nat := count_occ N.eq_dec q SL.

Fixpoint nslash (segs : list seg) : nat :=
  match segs with
  | [] => 0
  | Slash :: r => S (nslash r)
  | _ :: r => nslash r
  end.

Definition ss1 (s : seg) : nat :=
  match s with
  | Wild w => match w_ty w with StarStar => 1 | _ => 0 end
  | _ => 0
  end.

Fixpoint count_ss (segs : list seg) : nat :=
  match segs with [] => 0 | s :: r => ss1 s + count_ss r end.

Definition lit_ok (s : seg) : Prop := match s with Lit d => ~ In SL d | _ => True end.

(* what ReadDir guarantees: distinct names without slashes *)
Definition fs_ok (fs : fsys) : Prop := forall dir infos, readDir fs dir = Some infos ->
  NoDup (map fst infos) /\ forall n b, In (n, b) infos -> ~ In SL n.

Lemma nodup_app {A} (a b : list A) : NoDup a -> NoDup b ->
  (forall x, In x a -> In x b -> False) -> NoDup (a ++ b).
Proof.
  induction a as [|x a IH]; intros Ha Hb Hd; [exact Hb|]. simpl.
  inversion Ha as [|? ? Hx Ha']; subst. constructor.
  - intros Hin. apply in_app_iff in Hin as [Hin|Hin]; [contradiction|]. eapply Hd; [left; reflexivity|exact Hin].
  - apply IH; [exact Ha'|exact Hb|]. intros y Hy1 Hy2. eapply Hd; [right; exact Hy1|exact Hy2].
Qed.

Lemma nsl_app a b : nsl (a ++ b) = nsl a + nsl b.
Proof. apply count_occ_app. Qed.

Lemma nsl_free n : ~ In SL n -> nsl n = 0.
Proof. intros H. apply count_occ_not_In. exact H. Qed.

Lemma nsl_sl q : nsl (SL :: q) = S (nsl q).
Proof. unfold nsl. simpl. destruct (N.eq_dec SL SL); [reflexivity|congruence]. Qed.

Lemma nslash_app a b : nslash (a ++ b) = nslash a + nslash b.
Proof. induction a as [|[d| |w] a IH]; simpl; rewrite ?IH; reflexivity. Qed.

Lemma count_ss_app a b : count_ss (a ++ b) = count_ss a + count_ss b.
Proof. induction a as [|s a IH]; simpl; rewrite ?IH; lia. Qed.

Lemma slash_free_nslash a : slash_free a -> nslash a = 0.
Proof.
  induction a as [|[d| |w] a IH]; intros H; simpl; try reflexivity;
    apply slash_free_cons in H as [H1 H2]; try congruence; apply IH, H2.
Qed.

Lemma first_comp : forall n1 n2 q1 q2, ~ In SL n1 -> ~ In SL n2 ->
  n1 ++ SL :: q1 = n2 ++ SL :: q2 -> n1 = n2.
Proof.
  induction n1 as [|a n1 IH]; intros [|c n2] q1 q2 H1 H2 E; simpl in *.
  - reflexivity.
  - inversion E; subst. exfalso; apply H2; left; reflexivity.
  - inversion E; subst. exfalso; apply H1; left; reflexivity.
  - inversion E; subst. f_equal. eapply IH; eauto.
Qed.

Lemma PM_count fs EM : fs_ok fs -> forall segs dir e, PathMatches fs EM segs dir e ->
  Forall lit_ok segs ->
  exists q, fst e = dir ++ q /\ nslash segs <= nsl q /\ (count_ss segs = 0 -> nsl q = nslash segs).
Proof.
  intros Hfs segs dir e H. induction H; intros Hl.
  - inversion Hl as [|? ? Hd Hl']; subst. inversion Hl' as [|? ? _ Hl'']; subst.
    destruct (IHPathMatches Hl'') as (q & E & H1 & H2). simpl in Hd.
    exists (d ++ SL :: q). split; [rewrite E; rewrite <- !app_assoc; reflexivity|].
    rewrite nsl_app, nsl_sl, (nsl_free _ Hd). simpl. split; [lia|]. intros Hc. rewrite H2; [lia|exact Hc].
  - exists []. simpl. split; [rewrite app_nil_r; reflexivity|]. unfold nsl; simpl; split; [lia|reflexivity].
  - inversion Hl as [|? ? Hd _]; subst. simpl in Hd. exists d. simpl. rewrite (nsl_free _ Hd). auto.
  - destruct (Hfs _ _ H1) as [_ Hn]. exists name. simpl. rewrite (nsl_free _ (Hn _ _ H2)).
    rewrite (slash_free_nslash _ H0). auto.
  - apply Forall_app in Hl as [_ Hl2]. inversion Hl2 as [|? ? _ Hl3]; subst.
    destruct (IHPathMatches Hl3) as (q & E & H5 & H6).
    destruct (Hfs _ _ H1) as [_ Hn].
    exists (name ++ SL :: q). split; [rewrite E; rewrite <- !app_assoc; reflexivity|].
    rewrite nsl_app, nsl_sl, (nsl_free _ (Hn _ _ H2)), nslash_app, (slash_free_nslash _ H0). simpl.
    split; [lia|]. rewrite count_ss_app. simpl. intros Hc. rewrite H6; lia.
  - apply Forall_app in Hl as [_ Hl2].
    destruct (IHPathMatches Hl2) as (q & E & H6 & H7).
    destruct (Hfs _ _ H2) as [_ Hn].
    exists (name ++ SL :: q). split; [rewrite E; rewrite <- !app_assoc; reflexivity|].
    rewrite nsl_app, nsl_sl, (nsl_free _ (Hn _ _ H3)), nslash_app, (slash_free_nslash _ H0). simpl in *.
    split; [lia|]. rewrite count_ss_app. simpl. rewrite H1. intros Hc. lia.
Qed.

(* the cuts of a pattern with at most one ** *)
Lemma cuts_shape1 : forall post pre, count_ss post = 0 ->
  fst (cuts pre post) = [] /\ slash_free post
  \/ exists p1 post', post = p1 ++ Slash :: post' /\ slash_free p1 /\
       fst (cuts pre post) = [(pre ++ p1, post')].
Proof.
  induction post as [|s post IH]; intros pre Hc.
  - left. split; [reflexivity|constructor].
  - simpl in Hc. destruct (seg_cases s) as [->|[(w & -> & Hw)|[Hs1 Hs2]]].
    + right. exists [], post. simpl. rewrite app_nil_r. repeat split. constructor.
    + simpl in Hc. rewrite Hw in Hc. lia.
    + rewrite cuts_other by assumption. destruct (IH (pre ++ [s]) ltac:(lia)) as [[E Hf]|(p1 & post' & E1 & Hf & E2)].
      * left. split; [exact E|apply slash_free_cons; auto].
      * right. exists (s :: p1), post'. subst post. repeat split; [apply slash_free_cons; auto|].
        rewrite E2. rewrite <- app_assoc. reflexivity.
Qed.

(* the cuts of a pattern with at most one ** *)
Lemma cuts_shape : forall post pre, count_ss post <= 1 ->
  (fst (cuts pre post) = [] /\ slash_free post)
  \/ (exists p1 post', post = p1 ++ Slash :: post' /\ slash_free p1 /\
         fst (cuts pre post) = [(pre ++ p1, post')])
  \/ (exists p1 w post2, post = p1 ++ Wild w :: post2 /\ slash_free p1 /\ w_ty w = StarStar /\
         count_ss post2 = 0 /\
         fst (cuts pre post) = (pre ++ p1 ++ [Wild w], Wild w :: post2)
                               :: fst (cuts (pre ++ p1 ++ [Wild w]) post2)).
Proof.
  induction post as [|s post IH]; intros pre Hc.
  - left. split; [reflexivity|constructor].
  - simpl in Hc. destruct (seg_cases s) as [->|[(w & -> & Hw)|[Hs1 Hs2]]].
    + right; left. exists [], post. simpl. rewrite app_nil_r. repeat split. constructor.
    + right; right. exists [], w, post. simpl in Hc. rewrite Hw in Hc.
      rewrite cuts_ss by assumption. simpl. repeat split; [constructor|assumption|lia].
    + rewrite cuts_other by assumption.
      destruct (IH (pre ++ [s]) ltac:(lia)) as [[E Hf]|[(p1 & post' & E1 & Hf & E2)|(p1 & w & post2 & E1 & Hf & Hw & Hc2 & E2)]].
      * left. split; [exact E|apply slash_free_cons; auto].
      * right; left. exists (s :: p1), post'. subst post. repeat split; [apply slash_free_cons; auto|].
        rewrite E2. rewrite <- app_assoc. reflexivity.
      * right; right. exists (s :: p1), w, post2. subst post.
        repeat split; [apply slash_free_cons; auto|assumption|assumption|].
        rewrite E2. rewrite <- !app_assoc. reflexivity.
Qed.

Section NoDup.
Variable fs : fsys.
Variable m : list seg -> bytes -> bool.
Hypothesis Hfs : fs_ok fs.

Lemma follow_suffix : forall n segs dir segs' dir', length segs <= n ->
  follow_prefix fs segs dir = Some (segs', dir') -> exists pre, segs = pre ++ segs'.
Proof.
  induction n as [|n IH]; intros segs dir segs' dir' Hl H.
  - destruct segs; [|simpl in Hl; lia]. simpl in H. inversion H; subst. exists []; reflexivity.
  - destruct segs as [|[d| |w] [|[d2| |w2] tl]]; simpl in H;
      try (inversion H; subst; exists []; reflexivity).
    destruct (lstat fs (dir ++ d ++ [SL])) as [[| | |]|]; try discriminate.
    simpl in Hl. destruct (IH tl _ _ _ ltac:(lia) H) as [pre E]. exists (Lit d :: Slash :: pre).
    simpl. rewrite E. reflexivity.
Qed.

(* the results below one directory entry per cut *)
Definition cutF (f : nat) (dir : bytes) (infos : list (bytes * bool)) (c : list seg * list seg) :=
  flat_map_opt (fun e : bytes * bool =>
    if m (fst c) (fst e) && snd e
    then glob_gen m f fs (snd c) (dir ++ fst e ++ [SL]) else Some []) infos.

Lemma sub_count f rest d l x : Forall lit_ok rest ->
  glob_gen m f fs rest d = Some l -> In x (map fst l) ->
  exists q, x = d ++ q /\ nslash rest <= nsl q /\ (count_ss rest = 0 -> nsl q = nslash rest).
Proof.
  intros Hl Hg Hin. apply in_map_iff in Hin as (e & <- & Hin).
  pose proof (glob_gen_sound fs m _ _ _ _ Hg e Hin) as Hp.
  exact (PM_count fs _ Hfs _ _ _ Hp Hl).
Qed.

Lemma piece f dir first rest : Forall lit_ok rest ->
  (forall d l, glob_gen m f fs rest d = Some l -> NoDup (map fst l)) ->
  forall infos rc, NoDup (map fst infos) -> (forall n b, In (n, b) infos -> ~ In SL n) ->
  cutF f dir infos (first, rest) = Some rc ->
  NoDup (map fst rc) /\
  forall x, In x (map fst rc) -> exists n b q, In (n, b) infos /\ x = dir ++ n ++ SL :: q /\
     nslash rest <= nsl q /\ (count_ss rest = 0 -> nsl q = nslash rest).
Proof.
  intros Hl IH. induction infos as [|[n b] infos IHi]; intros rc Hnd Hns H.
  - inversion H; subst. split; [constructor|intros x []].
  - unfold cutF in H. simpl in H.
    match type of H with match ?X with _ => _ end = _ => destruct X as [a|] eqn:Ea; [|discriminate] end.
    match type of H with match ?X with _ => _ end = _ => destruct X as [r|] eqn:Er; [|discriminate] end.
    inversion H; subst; clear H. inversion Hnd as [|? ? Hnin Hnd']; subst.
    destruct (IHi r Hnd' (fun n0 b0 Hi => Hns n0 b0 (or_intror Hi)) Er) as [IH1 IH2].
    assert (Ha : NoDup (map fst a) /\ forall x, In x (map fst a) -> exists q, x = dir ++ n ++ SL :: q /\
                  nslash rest <= nsl q /\ (count_ss rest = 0 -> nsl q = nslash rest)).
    { destruct (m first n && b).
      - split; [eapply IH; exact Ea|]. intros x Hx.
        destruct (sub_count _ _ _ _ _ Hl Ea Hx) as (q & E & Hq). exists q. split; [|exact Hq].
        rewrite E. rewrite <- !app_assoc. reflexivity.
      - inversion Ea; subst. split; [constructor|intros x []]. }
    destruct Ha as [Ha1 Ha2]. rewrite map_app. split.
    + apply nodup_app; [exact Ha1|exact IH1|].
      intros x Hxa Hxr. destruct (Ha2 _ Hxa) as (q & E & _).
      destruct (IH2 _ Hxr) as (n' & b' & q' & Hin' & E' & _).
      rewrite E in E'. apply app_inv_head in E'.
      apply first_comp in E'; [|eapply Hns; left; reflexivity|eapply Hns; right; exact Hin'].
      subst n'. apply Hnin. apply in_map_iff. exists (n, b'). split; [reflexivity|exact Hin'].
    + intros x Hx. apply in_app_iff in Hx as [Hx|Hx].
      * destruct (Ha2 _ Hx) as (q & E & Hq). exists n, b, q. split; [left; reflexivity|]. split; assumption.
      * destruct (IH2 _ Hx) as (n' & b' & q' & Hin' & Hq). exists n', b', q'. split; [right; exact Hin'|exact Hq].
Qed.

Lemma final_part segs dir infos : NoDup (map fst infos) ->
  let fin := flat_map (fun e : bytes * bool =>
               if m segs (fst e) then lstat_list fs (dir ++ fst e) else []) infos in
  NoDup (map fst fin) /\ forall x, In x (map fst fin) -> exists n b, In (n, b) infos /\ x = dir ++ n.
Proof.
  induction infos as [|[n b] infos IHi]; intros Hnd; simpl.
  - split; [constructor|intros x []].
  - inversion Hnd as [|? ? Hnin Hnd']; subst. destruct (IHi Hnd') as [IH1 IH2]. clear IHi.
    assert (Ha : forall x, In x (map fst (if m segs n then lstat_list fs (dir ++ n) else [])) -> x = dir ++ n).
    { intros x Hx. destruct (m segs n); [|destruct Hx]. unfold lstat_list in Hx.
      destruct (lstat fs (dir ++ n)); simpl in Hx; [destruct Hx as [<-|[]]; reflexivity|destruct Hx]. }
    rewrite map_app. split.
    + apply nodup_app; [|exact IH1|].
      * destruct (m segs n); [|constructor]. unfold lstat_list. destruct (lstat fs (dir ++ n)); simpl; repeat constructor. intros [].
      * intros x Hx1 Hx2. apply Ha in Hx1. destruct (IH2 _ Hx2) as (n' & b' & Hin & E). subst x.
        apply app_inv_head in E. subst n'. apply Hnin. apply in_map_iff. exists (n, b'). split; [reflexivity|exact Hin].
    + intros x Hx. apply in_app_iff in Hx as [Hx|Hx].
      * exists n, b. split; [left; reflexivity|apply Ha, Hx].
      * destruct (IH2 _ Hx) as (n' & b' & Hin & E). exists n', b'. split; [right; exact Hin|exact E].
Qed.

Theorem glob_gen_nodup : forall fuel segs dir l, Forall lit_ok segs -> count_ss segs <= 1 ->
  glob_gen m fuel fs segs dir = Some l -> NoDup (map fst l).
Proof.
  induction fuel as [|f IH]; intros segs dir l Hl Hc H; [discriminate|].
  rewrite glob_gen_S in H. unfold glob_body in H.
  destruct (follow_prefix fs segs dir) as [[segs' dir']|] eqn:Ef; [|inversion H; constructor].
  destruct (follow_suffix _ _ _ _ _ (le_n _) Ef) as [pre0 Epre].
  assert (Hl' : Forall lit_ok segs') by (subst segs; apply Forall_app in Hl; tauto).
  assert (Hc' : count_ss segs' <= 1) by (subst segs; rewrite count_ss_app in Hc; lia).
  clear Ef Epre Hl Hc pre0.
  destruct (simple_target segs' dir') as [p|].
  { inversion H; subst. unfold lstat_list. destruct (lstat fs p); simpl; repeat constructor. intros []. }
  destruct (readDir fs dir') as [infos|] eqn:Er; [|inversion H; constructor].
  destruct (Hfs _ _ Er) as [Hnd Hns].
  match type of H with match ?X with _ => _ end = _ => destruct X as [r1|] eqn:E1; [|discriminate] end.
  inversion H; subst; clear H.
  destruct (final_part segs' dir' infos Hnd) as [Hfin1 Hfin2]. cbv zeta in Hfin1, Hfin2.
  destruct (cuts_shape segs' [] Hc') as [[Ecs Hsf]|[(p1 & post' & Es & Hp1 & Ecs)|(p1 & w & post2 & Es & Hp1 & Hw & Hc2 & Ecs)]].
  - (* no cut *)
    rewrite Ecs in E1. simpl in E1. inversion E1; subst. simpl.
    destruct (snd (cuts [] segs')); [constructor|exact Hfin1].
  - (* one cut, at the first Slash *)
    rewrite Ecs in E1. simpl in E1.
    match type of E1 with match ?X with _ => _ end = _ => destruct X as [a|] eqn:Ea; [|discriminate] end.
    inversion E1; subst r1; clear E1.
    assert (Hsn : snd (cuts [] segs') = true).
    { destruct (snd (cuts [] segs')) eqn:Esn; [reflexivity|]. apply cuts_snd in Esn. rewrite Es in Esn.
      apply Forall_app in Esn as [_ Esn]. inversion Esn; congruence. }
    rewrite Hsn. cbv iota. rewrite !app_nil_r.
    assert (Hlp : Forall lit_ok post') by (rewrite Es in Hl'; apply Forall_app in Hl' as [_ Hl2]; inversion Hl2; assumption).
    assert (Hcp : count_ss post' <= 1) by (rewrite Es, count_ss_app in Hc'; simpl in Hc'; lia).
    eapply (piece f dir' p1 post' Hlp (fun d l => IH post' d l Hlp Hcp) infos a Hnd Hns). exact Ea.
  - (* the cut inside the **, then possibly the cut at the next Slash *)
    assert (Hlw : Forall lit_ok (Wild w :: post2)) by (rewrite Es in Hl'; apply Forall_app in Hl' as [_ Hl2]; exact Hl2).
    assert (Hcw : count_ss (Wild w :: post2) <= 1) by (simpl; rewrite Hw, Hc2; lia).
    rewrite Ecs in E1. simpl app in E1.
    destruct (cuts_shape1 post2 (p1 ++ [Wild w]) Hc2) as [[Ecs2 Hsf2]|(p2 & post' & Es2 & Hp2 & Ecs2)];
      rewrite Ecs2 in E1; simpl in E1.
    + match type of E1 with match ?X with _ => _ end = _ => destruct X as [a|] eqn:Ea; [|discriminate] end.
      inversion E1; subst r1; clear E1. rewrite app_nil_r.
      destruct (piece f dir' (p1 ++ [Wild w]) (Wild w :: post2) Hlw
                  (fun d l => IH (Wild w :: post2) d l Hlw Hcw) infos a Hnd Hns Ea) as [Ha1 Ha2].
      destruct (snd (cuts [] segs')); cbv iota; [rewrite app_nil_r; exact Ha1|].
      rewrite map_app. apply nodup_app; [exact Ha1|exact Hfin1|].
      intros x Hx1 Hx2. destruct (Ha2 _ Hx1) as (n & b & q & Hin & E & _).
      destruct (Hfin2 _ Hx2) as (n' & b' & Hin' & E'). rewrite E in E'. apply app_inv_head in E'.
      apply (Hns _ _ Hin'). rewrite <- E'. apply in_app_iff. right; left; reflexivity.
    + match type of E1 with match ?X with _ => _ end = _ => destruct X as [a|] eqn:Ea; [|discriminate] end.
      match type of E1 with match ?X with _ => _ end = _ => destruct X as [b1|] eqn:Eb1; [|discriminate] end.
      inversion E1; subst r1; clear E1.
      match type of Eb1 with match ?X with _ => _ end = _ => destruct X as [b0|] eqn:Eb; [|discriminate] end.
      inversion Eb1; subst b1; clear Eb1. rewrite app_nil_r.
      assert (Hsn : snd (cuts [] segs') = true).
      { destruct (snd (cuts [] segs')) eqn:Esn; [reflexivity|]. apply cuts_snd in Esn. rewrite Es, Es2 in Esn.
        apply Forall_app in Esn as [_ Esn]. inversion Esn as [|? ? _ Esn2]; subst.
        apply Forall_app in Esn2 as [_ Esn3]. inversion Esn3; congruence. }
      rewrite Hsn. cbv iota. rewrite app_nil_r.
      assert (Hlp : Forall lit_ok post').
      { pose proof (Forall_inv_tail Hlw) as Hl2. rewrite Es2 in Hl2. apply Forall_app in Hl2 as [_ Hl3]. exact (Forall_inv_tail Hl3). }
      assert (Hcp0 : count_ss post' = 0) by (rewrite Es2, count_ss_app in Hc2; simpl in Hc2; lia).
      destruct (piece f dir' (p1 ++ [Wild w]) (Wild w :: post2) Hlw
                  (fun d l => IH (Wild w :: post2) d l Hlw Hcw) infos a Hnd Hns Ea) as [Ha1 Ha2].
      destruct (piece f dir' ((p1 ++ [Wild w]) ++ p2) post' Hlp
                  (fun d l => IH post' d l Hlp ltac:(lia)) infos b0 Hnd Hns Eb) as [Hb1 Hb2].
      rewrite map_app. apply nodup_app; [exact Ha1|exact Hb1|].
      intros x Hx1 Hx2. destruct (Ha2 _ Hx1) as (n & b & q & Hin & E & Hq1 & _).
      destruct (Hb2 _ Hx2) as (n' & b' & q' & Hin' & E' & _ & Hq2). specialize (Hq2 Hcp0).
      rewrite E in E'. apply app_inv_head in E'.
      pose proof (first_comp _ _ _ _ (Hns _ _ Hin) (Hns _ _ Hin') E') as En. subst n'.
      apply app_inv_head in E'. inversion E'; subst q'.
      simpl in Hq1. rewrite Es2, nslash_app, (slash_free_nslash _ Hp2) in Hq1. simpl in Hq1. lia.
Qed.

End NoDup.

(* for the model (any element matcher, in particular matchElement) *)
Lemma glob_nodup_single_starstar fs fuel segs l : fs_ok fs ->
  Forall lit_ok segs -> count_ss segs <= 1 ->
  pattern_glob fuel fs segs = Some l -> NoDup (map fst l).
Proof.
  intros Hfs Hl Hc. unfold pattern_glob, pattern_glob_gen.
  destruct segs as [|[d| |w] tl]; intros H; try (eapply glob_gen_nodup; eauto; fail).
  eapply (glob_gen_nodup fs _ Hfs _ tl); [inversion Hl; assumption|simpl in Hc; lia|exact H].
Qed.
