(* C23 — proofs about glob over a file system: the declarative specification
   [PathMatches] (documented rules: ? and * stay inside one path element, ** is
   either * or a * followed by a slash and the ** again, literal elements are
   followed through Lstat) and the generic enumeration [glob_gen]: for every
   element matcher the enumeration yields exactly the paths of the
   specification instantiated with that matcher. *)
From verif Require Import lib.Base lib.Utf8 model.C23 proofs.C23_proofs.
Open Scope nat_scope.

Definition slash_free (segs : list seg) : Prop := Forall (fun s => s <> Slash) segs.

Definition needs_readdir (segs : list seg) : Prop :=
  simple_target segs [] = None /\ (forall d rest, segs <> Lit d :: Slash :: rest).

Section Spec.
Variable fs : fsys.
Variable EM : list seg -> bytes -> Prop.   (* the element relation *)

Inductive PathMatches : list seg -> bytes -> entry -> Prop :=
| PM_follow d rest dir e :
    lstat fs (dir ++ d ++ [SL]) = Some KDir ->
    PathMatches rest (dir ++ d ++ [SL]) e ->
    PathMatches (Lit d :: Slash :: rest) dir e
| PM_end dir k : lstat fs dir = Some k -> PathMatches [] dir (dir, k)
| PM_lit d dir k : lstat fs (dir ++ d) = Some k -> PathMatches [Lit d] dir (dir ++ d, k)
| PM_elem segs dir infos name b k :
    needs_readdir segs -> slash_free segs ->
    readDir fs dir = Some infos -> In (name, b) infos ->
    EM segs name -> lstat fs (dir ++ name) = Some k ->
    PathMatches segs dir (dir ++ name, k)
| PM_slash first rest dir infos name e :
    needs_readdir (first ++ Slash :: rest) -> slash_free first ->
    readDir fs dir = Some infos -> In (name, true) infos ->
    EM first name -> PathMatches rest (dir ++ name ++ [SL]) e ->
    PathMatches (first ++ Slash :: rest) dir e
| PM_ss pre w post dir infos name e :
    needs_readdir (pre ++ Wild w :: post) -> slash_free pre -> w_ty w = StarStar ->
    readDir fs dir = Some infos -> In (name, true) infos ->
    EM (pre ++ [Wild w]) name -> PathMatches (Wild w :: post) (dir ++ name ++ [SL]) e ->
    PathMatches (pre ++ Wild w :: post) dir e.
End Spec.

(* monotonicity in the element relation, for patterns all of whose segments
   satisfy a predicate Q *)
Lemma PathMatches_mono fs (EM1 EM2 : list seg -> bytes -> Prop) (Q : seg -> Prop) :
  (forall s n, Forall Q s -> EM1 s n -> EM2 s n) ->
  forall segs dir e, PathMatches fs EM1 segs dir e -> Forall Q segs -> PathMatches fs EM2 segs dir e.
Proof.
  intros Hm segs dir e H. induction H; intros HQ.
  - apply PM_follow; [assumption|]. apply IHPathMatches. inversion HQ as [|? ? _ HQ']; subst.
    inversion HQ'; assumption.
  - apply PM_end; assumption.
  - apply PM_lit; assumption.
  - eapply PM_elem; eauto.
  - apply Forall_app in HQ as [HQ1 HQ2]. inversion HQ2; subst.
    eapply PM_slash; eauto.
  - apply Forall_app in HQ as [HQ1 HQ2].
    eapply PM_ss; eauto.
    + apply Hm; [|assumption]. apply Forall_app; split; [assumption|].
      constructor; [inversion HQ2; assumption|constructor].
Qed.

(* ------------------------------------------------------------------ *)
(* auxiliary facts about the pieces of glob_gen *)

Lemma fmo_in {A B} (f : A -> option (list B)) l : forall r, flat_map_opt f l = Some r ->
  forall e, In e r <-> exists x rx, In x l /\ f x = Some rx /\ In e rx.
Proof.
  induction l as [|x l IH]; intros r H e; simpl in H.
  - inversion H; subst. split; [intros []|intros (x & rx & [] & _)].
  - destruct (f x) as [a|] eqn:Ea; [|discriminate].
    destruct (flat_map_opt f l) as [b|] eqn:Eb; [|discriminate]. inversion H; subst.
    rewrite in_app_iff. split.
    + intros [Hi|Hi]; [exists x, a; simpl; auto|].
      apply (IH b eq_refl) in Hi as (y & ry & Hy & Hf & Hin). exists y, ry; simpl; auto.
    + intros (y & ry & [Hy|Hy] & Hf & Hin).
      * subst y. rewrite Ea in Hf; inversion Hf; subst. left; exact Hin.
      * right. apply (IH b eq_refl). eauto.
Qed.

Lemma fmo_some_in {A B} (f : A -> option (list B)) l : forall r x,
  flat_map_opt f l = Some r -> In x l -> exists rx, f x = Some rx.
Proof.
  induction l as [|y l IH]; intros r x H Hin; [destruct Hin|]. simpl in H.
  destruct (f y) as [a|] eqn:Ea; [|discriminate].
  destruct (flat_map_opt f l) as [b|] eqn:Eb; [|discriminate].
  destruct Hin as [->|Hin]; [eauto|]. eapply IH; eauto.
Qed.

Lemma simple_target_dir segs d1 d2 : simple_target segs d1 = None -> simple_target segs d2 = None.
Proof. destruct segs as [|[d| |w] [|s tl]]; simpl; intros H; try reflexivity; discriminate. Qed.

Lemma follow_id fs segs dir : (forall d rest, segs <> Lit d :: Slash :: rest) ->
  follow_prefix fs segs dir = Some (segs, dir).
Proof.
  intros H. destruct segs as [|[d| |w] [|[d2| |w2] tl]]; try reflexivity.
  exfalso; eapply H; reflexivity.
Qed.

Lemma follow_sound fs EM : forall n segs dir segs' dir', length segs <= n ->
  follow_prefix fs segs dir = Some (segs', dir') ->
  (forall d r, segs' <> Lit d :: Slash :: r) /\
  (forall e, PathMatches fs EM segs' dir' e -> PathMatches fs EM segs dir e).
Proof.
  induction n as [|n IH]; intros segs dir segs' dir' Hl H.
  - destruct segs; [|simpl in Hl; lia]. simpl in H. inversion H; subst.
    split; [intros; discriminate|auto].
  - destruct segs as [|[d| |w] [|[d2| |w2] tl]]; simpl in H;
      try (inversion H; subst; split; [intros; discriminate|auto]; fail).
    destruct (lstat fs (dir ++ d ++ [SL])) as [[| | |]|] eqn:El; try discriminate.
    simpl in Hl. destruct (IH tl _ _ _ ltac:(lia) H) as [H1 H2]. split; [exact H1|].
    intros e He. apply PM_follow; [exact El|apply H2, He].
Qed.

Lemma cuts_other pre s post : s <> Slash -> (forall w, s = Wild w -> w_ty w <> StarStar) ->
  cuts pre (s :: post) = cuts (pre ++ [s]) post.
Proof.
  intros H1 H2. destruct s as [d| |w]; simpl; [reflexivity|congruence|].
  specialize (H2 w eq_refl). destruct (w_ty w); try reflexivity. congruence.
Qed.

Lemma cuts_ss pre w post : w_ty w = StarStar ->
  cuts pre (Wild w :: post) =
  ((pre ++ [Wild w], Wild w :: post) :: fst (cuts (pre ++ [Wild w]) post),
   snd (cuts (pre ++ [Wild w]) post)).
Proof. intros H. simpl. rewrite H. destruct (cuts (pre ++ [Wild w]) post); reflexivity. Qed.

Definition is_ss (s : seg) : Prop := exists w, s = Wild w /\ w_ty w = StarStar.

Lemma seg_cases (s : seg) :
  s = Slash \/ is_ss s \/ (s <> Slash /\ forall w, s = Wild w -> w_ty w <> StarStar).
Proof.
  destruct s as [d| |w]; [right; right; split; [discriminate|intros; discriminate]|left; reflexivity|].
  destruct (w_ty w) eqn:E.
  - right; right; split; [discriminate|]. intros w' H; inversion H; subst; congruence.
  - right; right; split; [discriminate|]. intros w' H; inversion H; subst; congruence.
  - right; left. exists w; auto.
Qed.

Lemma cuts_sound : forall post pre first rest, In (first, rest) (fst (cuts pre post)) ->
  (exists p1 post', post = p1 ++ Slash :: post' /\ slash_free p1 /\ first = pre ++ p1 /\ rest = post')
  \/ (exists p1 w post', post = p1 ++ Wild w :: post' /\ slash_free p1 /\ w_ty w = StarStar /\
        first = pre ++ p1 ++ [Wild w] /\ rest = Wild w :: post').
Proof.
  induction post as [|s post IH]; intros pre first rest H; [destruct H|].
  assert (Hrec : In (first, rest) (fst (cuts (pre ++ [s]) post)) -> s <> Slash ->
    (exists p1 post', s :: post = p1 ++ Slash :: post' /\ slash_free p1 /\ first = pre ++ p1 /\ rest = post')
    \/ (exists p1 w post', s :: post = p1 ++ Wild w :: post' /\ slash_free p1 /\ w_ty w = StarStar /\
          first = pre ++ p1 ++ [Wild w] /\ rest = Wild w :: post')).
  { intros Hin Hs. destruct (IH _ _ _ Hin) as [(p1 & post' & E1 & E2 & E3 & E4)|(p1 & w & post' & E1 & E2 & E3 & E4 & E5)].
    - left. exists (s :: p1), post'. subst. repeat split; [constructor; assumption|rewrite <- app_assoc; reflexivity].
    - right. exists (s :: p1), w, post'. subst. repeat split; [constructor; assumption|assumption|rewrite <- !app_assoc; reflexivity]. }
  destruct (seg_cases s) as [->|[(w & -> & Hw)|[Hs1 Hs2]]].
  - simpl in H. destruct H as [H|[]]. injection H as E1 E2; subst first rest. left. exists [], post.
    repeat split; [constructor|rewrite app_nil_r; reflexivity].
  - rewrite cuts_ss in H by assumption. simpl in H. destruct H as [H|H].
    + injection H as E1 E2; subst first rest. right. exists [], w, post. repeat split; [constructor|assumption].
    + apply Hrec; [exact H|discriminate].
  - rewrite cuts_other in H by assumption. apply Hrec; assumption.
Qed.

Lemma slash_free_cons s l : slash_free (s :: l) <-> s <> Slash /\ slash_free l.
Proof. unfold slash_free. split; [intros H; inversion H; auto|intros [H1 H2]; constructor; auto]. Qed.

Lemma cuts_complete_slash : forall p1 pre post', slash_free p1 ->
  In (pre ++ p1, post') (fst (cuts pre (p1 ++ Slash :: post'))).
Proof.
  induction p1 as [|s p1 IH]; intros pre post' Hf.
  - simpl. rewrite app_nil_r. left; reflexivity.
  - apply slash_free_cons in Hf as [Hs Hf]. simpl app.
    replace (pre ++ s :: p1) with ((pre ++ [s]) ++ p1) by (rewrite <- app_assoc; reflexivity).
    destruct (seg_cases s) as [->|[(w & -> & Hw)|[Hs1 Hs2]]]; [congruence| |].
    + rewrite cuts_ss by assumption. simpl. right. apply IH, Hf.
    + rewrite cuts_other by assumption. apply IH, Hf.
Qed.

Lemma cuts_complete_ss : forall p1 pre w post', slash_free p1 -> w_ty w = StarStar ->
  In (pre ++ p1 ++ [Wild w], Wild w :: post') (fst (cuts pre (p1 ++ Wild w :: post'))).
Proof.
  induction p1 as [|s p1 IH]; intros pre w post' Hf Hw.
  - simpl app. rewrite cuts_ss by assumption. left; reflexivity.
  - apply slash_free_cons in Hf as [Hs Hf]. simpl app.
    replace (pre ++ s :: p1 ++ [Wild w]) with ((pre ++ [s]) ++ p1 ++ [Wild w])
      by (rewrite <- app_assoc; reflexivity).
    destruct (seg_cases s) as [->|[(w' & -> & Hw')|[Hs1 Hs2]]]; [congruence| |].
    + rewrite cuts_ss by assumption. simpl. right. apply IH; assumption.
    + rewrite cuts_other by assumption. apply IH; assumption.
Qed.

Lemma cuts_snd : forall post pre, snd (cuts pre post) = false <-> slash_free post.
Proof.
  induction post as [|s post IH]; intros pre.
  - simpl. split; [constructor|reflexivity].
  - rewrite slash_free_cons. destruct (seg_cases s) as [->|[(w & -> & Hw)|[Hs1 Hs2]]].
    + simpl. split; [discriminate|intros [H _]; congruence].
    + rewrite cuts_ss by assumption. simpl. rewrite IH. split; [intros H; split; [discriminate|exact H]|intros [_ H]; exact H].
    + rewrite cuts_other by assumption. rewrite IH. split; [intros H; split; assumption|intros [_ H]; exact H].
Qed.

(* ------------------------------------------------------------------ *)
Section Enum.
Variable fs : fsys.
Variable m : list seg -> bytes -> bool.
Let EMm (s : list seg) (n : bytes) : Prop := m s n = true.

Definition glob_body (f : nat) (segs : list seg) (dir : bytes) : option (list entry) :=
  match follow_prefix fs segs dir with
  | None => Some []
  | Some (segs, dir) =>
    match simple_target segs dir with
    | Some p => Some (lstat_list fs p)
    | None =>
      match readDir fs dir with
      | None => Some []
      | Some infos =>
        match flat_map_opt (fun c : list seg * list seg =>
                flat_map_opt (fun e : bytes * bool =>
                  if m (fst c) (fst e) && snd e
                  then glob_gen m f fs (snd c) (dir ++ fst e ++ [SL])
                  else Some []) infos) (fst (cuts [] segs)) with
        | None => None
        | Some r1 =>
          Some (r1 ++
                (if snd (cuts [] segs) then []
                 else flat_map (fun e : bytes * bool =>
                        if m segs (fst e) then lstat_list fs (dir ++ fst e) else [])
                      infos))
        end
      end
    end
  end.

Lemma glob_gen_S f segs dir : glob_gen m (S f) fs segs dir = glob_body f segs dir.
Proof. reflexivity. Qed.

Lemma lstat_list_in p e : In e (lstat_list fs p) <-> exists k, lstat fs p = Some k /\ e = (p, k).
Proof.
  unfold lstat_list. destruct (lstat fs p) as [k|].
  - simpl. split; [intros [H|[]]; eauto|intros (k' & H & ->); inversion H; auto].
  - simpl. split; [intros []|intros (k' & H & _); discriminate].
Qed.

Theorem glob_gen_sound : forall fuel segs dir l, glob_gen m fuel fs segs dir = Some l ->
  forall e, In e l -> PathMatches fs EMm segs dir e.
Proof.
  induction fuel as [|f IH]; intros segs dir l H e Hin; [discriminate|].
  rewrite glob_gen_S in H. unfold glob_body in H.
  destruct (follow_prefix fs segs dir) as [[segs' dir']|] eqn:Ef;
    [|inversion H; subst; destruct Hin].
  destruct (follow_sound fs EMm _ _ _ _ _ (le_n _) Ef) as [Hnf Hback]. apply Hback. clear Hback Ef.
  destruct (simple_target segs' dir') as [p|] eqn:Es.
  - inversion H; subst. apply lstat_list_in in Hin as (k & Hk & ->).
    destruct segs' as [|[d| |w] [|s tl]]; simpl in Es; inversion Es; subst;
      [apply PM_end|apply PM_lit]; assumption.
  - assert (Hnr : needs_readdir segs') by (split; [eapply simple_target_dir; exact Es|exact Hnf]).
    destruct (readDir fs dir') as [infos|] eqn:Er; [|inversion H; subst; destruct Hin].
    match type of H with match ?X with _ => _ end = _ => destruct X as [r1|] eqn:E1; [|discriminate] end.
    inversion H; subst; clear H. apply in_app_iff in Hin as [Hin|Hin].
    + apply (fmo_in _ _ _ E1) in Hin as ([first rest] & rx & Hc & Hrx & Hin). simpl in Hrx.
      apply (fmo_in _ _ _ Hrx) in Hin as ([name b] & ry & Hi & Hry & Hin). simpl in Hry.
      destruct (m first name && b) eqn:Emb; [|inversion Hry; subst; destruct Hin].
      apply andb_true_iff in Emb as [Em ->].
      specialize (IH _ _ _ Hry _ Hin).
      apply cuts_sound in Hc as [(p1 & post' & E & Hsf & -> & ->)|(p1 & w & post' & E & Hsf & Hw & -> & ->)];
        simpl in *; subst segs'.
      * eapply PM_slash; eauto.
      * eapply PM_ss; eauto.
    + destruct (snd (cuts [] segs')) eqn:Esn; [destruct Hin|].
      apply cuts_snd in Esn. apply in_flat_map in Hin as ([name b] & Hi & Hin). simpl in Hin.
      destruct (m segs' name) eqn:Em; [|destruct Hin].
      apply lstat_list_in in Hin as (k & Hk & ->). eapply PM_elem; eauto.
Qed.

Lemma needs_follow_id segs dir : needs_readdir segs -> follow_prefix fs segs dir = Some (segs, dir).
Proof. intros [_ H]. apply follow_id, H. Qed.

Theorem glob_gen_complete : forall segs dir e, PathMatches fs EMm segs dir e ->
  forall fuel l, glob_gen m fuel fs segs dir = Some l -> In e l.
Proof.
  intros segs dir e H. induction H; intros fuel l Hg; (destruct fuel as [|f]; [discriminate|]).
  - (* follow *)
    apply (IHPathMatches (S f)). rewrite glob_gen_S in *. unfold glob_body in *.
    simpl follow_prefix in Hg. rewrite H in Hg. exact Hg.
  - rewrite glob_gen_S in Hg. unfold glob_body in Hg. simpl in Hg. inversion Hg; subst.
    apply lstat_list_in. eauto.
  - rewrite glob_gen_S in Hg. unfold glob_body in Hg. simpl in Hg. inversion Hg; subst.
    apply lstat_list_in. eauto.
  - (* last element *)
    rewrite glob_gen_S in Hg. unfold glob_body in Hg. rewrite needs_follow_id in Hg by assumption.
    destruct H as [Hs _]. rewrite (simple_target_dir _ _ dir Hs) in Hg. rewrite H1 in Hg.
    match type of Hg with match ?X with _ => _ end = _ => destruct X as [r1|] eqn:E1; [|discriminate] end.
    inversion Hg; subst. apply in_app_iff; right.
    apply cuts_snd with (pre := []) in H0. rewrite H0.
    apply in_flat_map. exists (name, b). split; [assumption|]. simpl.
    unfold EMm in H3. rewrite H3. apply lstat_list_in. eauto.
  - (* first slash is a Slash *)
    rewrite glob_gen_S in Hg. unfold glob_body in Hg. rewrite needs_follow_id in Hg by assumption.
    destruct H as [Hs _]. rewrite (simple_target_dir _ _ dir Hs) in Hg. rewrite H1 in Hg.
    match type of Hg with match ?X with _ => _ end = _ => destruct X as [r1|] eqn:E1; [|discriminate] end.
    inversion Hg; subst. apply in_app_iff; left.
    pose proof (cuts_complete_slash first [] rest H0) as Hc. simpl in Hc.
    destruct (fmo_some_in _ _ _ _ E1 Hc) as [rx Hx]. simpl in Hx.
    apply (fmo_in _ _ _ E1). exists (first, rest), rx. split; [exact Hc|]. split; [exact Hx|].
    destruct (fmo_some_in _ _ _ _ Hx H2) as [ry Hy]. simpl in Hy.
    pose proof H3 as H3'. unfold EMm in H3'. rewrite H3' in Hy. simpl in Hy.
    apply (fmo_in _ _ _ Hx). exists (name, true), ry. split; [assumption|]. simpl.
    unfold EMm in H3. rewrite H3. simpl. split; [exact Hy|]. eapply IHPathMatches; exact Hy.
  - (* first slash inside a ** *)
    rewrite glob_gen_S in Hg. unfold glob_body in Hg. rewrite needs_follow_id in Hg by assumption.
    destruct H as [Hs _]. rewrite (simple_target_dir _ _ dir Hs) in Hg. rewrite H2 in Hg.
    match type of Hg with match ?X with _ => _ end = _ => destruct X as [r1|] eqn:E1; [|discriminate] end.
    inversion Hg; subst. apply in_app_iff; left.
    pose proof (cuts_complete_ss pre [] w post H0 H1) as Hc. simpl in Hc.
    destruct (fmo_some_in _ _ _ _ E1 Hc) as [rx Hx]. simpl in Hx.
    apply (fmo_in _ _ _ E1). exists (pre ++ [Wild w], Wild w :: post), rx. split; [exact Hc|]. split; [exact Hx|].
    destruct (fmo_some_in _ _ _ _ Hx H3) as [ry Hy]. simpl in Hy.
    pose proof H4 as H4'. unfold EMm in H4'. rewrite H4' in Hy. simpl in Hy.
    apply (fmo_in _ _ _ Hx). exists (name, true), ry. split; [assumption|]. simpl.
    unfold EMm in H4. rewrite H4. simpl. split; [exact Hy|]. eapply IHPathMatches; exact Hy.
Qed.

End Enum.
