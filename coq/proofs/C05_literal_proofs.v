(* Proofs for C05, part 4: float and special literals; all documented literals. *)
From verif Require Import lib.Base model.C05 proofs.C05_proofs proofs.C05_reject_proofs.
From Coq Require Import ZArith.
Open Scope N_scope.

(* contract L: ParseFloat on a documented decimal / scientific literal returns
   the correctly rounded binary64 (an error when that is an infinity), and
   recognises the three special words in any letter case *)
Record contract_L (pf : bytes -> option N) : Prop := {
  L_float : forall f, wf_float f = true -> pf (render_float f) = go_pf_of_float f;
  L_pinf : forall ups, pf (render_special SPInf ups) = Some bitsPInf;
  L_ninf : forall ups, pf (render_special SNInf ups) = Some bitsNInf;
  L_nan : forall ups, exists b, pf (render_special SNaN ups) = Some b /\ is_nan b = true
}.

Lemma num_eqb_refl v : num_eqb v v = true.
Proof. destruct v; cbn; rewrite ?Z.eqb_refl, ?N.eqb_refl; reflexivity. Qed.

(* ---------- the integer part followed by '.', 'e' or 'E' stops the scan ---------- *)
Definition stopper (c : N) : Prop := c = cDot \/ c = c_e \/ c = c_E.

Lemma nat_scan_ip_stop d r t0 T : wf_nat (mkNat 10 false (d :: r)) = true -> stopper t0 ->
  exists v, nat_scan (render_digits (d :: r) ++ t0 :: T) = Some (v, t0 :: T).
Proof.
  intros W St. destruct (wf_nat_inv _ W) as (_ & Hall & d' & r' & Hds & Hz).
  cbn [nl_base nl_ds] in *. inversion Hds; subst d' r'. clear Hds.
  assert (Hd : d_val d < 10).
  { cbn [forallb] in Hall. apply andb_true_iff in Hall as [Hd _]. apply N.ltb_lt in Hd. exact Hd. }
  assert (Stop : forall b acc cnt iv, 8 <= b -> b <= 10 ->
     scan_loop b acc cnt PDig iv (t0 :: T) = (acc, cnt, PDig, iv, t0 :: T)).
  { intros b acc cnt iv B8 B10. destruct St as [->|[->| ->]]; cbn [scan_loop];
    unfold cDot, c_e, c_E, cUnd; cbn [N.eqb Pos.eqb];
    [change (digit_val 46) with 63|change (digit_val 101) with 14|change (digit_val 69) with 14];
    (replace (b <=? _) with true by (symmetry; apply N.leb_le; lia)); reflexivity. }
  destruct (N.eq_dec (d_val d) 0) as [Z0|NZ].
  - rewrite (Hz eq_refl Z0). exists 0.
    assert (E48 : dig_char d = 48). { unfold dig_char. rewrite Z0. reflexivity. }
    cbn [render_digits render_tail app]. rewrite E48. unfold nat_scan.
    assert (SP : scan_prefix (48 :: t0 :: T) = (8, true, PDig, 0, t0 :: T)).
    { destruct St as [->|[->| ->]]; reflexivity. }
    rewrite SP, Stop by lia. reflexivity.
  - exists (dfold 10 (d :: r) 0). unfold nat_scan.
    assert (SP : scan_prefix (render_digits (d :: r) ++ t0 :: T) = (10, false, PDot, 0, render_digits (d :: r) ++ t0 :: T)).
    { cbn [render_digits app scan_prefix]. unfold c0.
      replace (dig_char d =? 48) with false; [reflexivity|].
      symmetry. apply N.eqb_neq. unfold dig_char.
      replace (d_val d <? 10) with true by (symmetry; apply N.ltb_lt; lia). lia. }
    rewrite SP, scan_loop_render_digits by (assumption || lia). rewrite Stop by lia.
    cbn [orb is_und]. replace (0 + N.of_nat (length (d :: r)) =? 0) with false; [reflexivity|].
    symmetry. apply N.eqb_neq. cbn [length]. lia.
Qed.

(* the text after the integer part of a well-formed float literal *)
Definition float_rest (f : floatlit) : bytes :=
  match fl_fp f with Some fp => cDot :: render_digits fp | None => [] end
  ++ match fl_ex f with
     | Some (up, sg, ed) =>
       (if up then c_E else c_e)
       :: (if sg =? 1 then [cPlus] else if sg =? 2 then [cMinus] else []) ++ render_digits ed
     | None => []
     end.

Lemma render_float_split f :
  render_float f = sign_bytes (fl_neg f) ++ render_digits (fl_ip f) ++ float_rest f.
Proof. reflexivity. Qed.

Lemma float_rest_head f : wf_float f = true -> exists t0 T, float_rest f = t0 :: T /\ stopper t0.
Proof.
  unfold wf_float, float_rest. intros W. apply andb_true_iff in W as [_ W].
  destruct (fl_fp f) as [fp|].
  - eexists _, _. split; [reflexivity|left; reflexivity].
  - destruct (fl_ex f) as [[[up sg] ed]|]; [|discriminate].
    destruct up; eexists _, _; (split; [reflexivity|]); unfold stopper; auto.
Qed.

Lemma float_rest_no_slash f : has_byte cSlash (float_rest f) = false.
Proof.
  unfold float_rest. rewrite has_byte_app. apply orb_false_iff. split.
  - destruct (fl_fp f) as [fp|]; [|reflexivity]. cbn [has_byte existsb].
    change (existsb (N.eqb cSlash) (render_digits fp)) with (has_byte cSlash (render_digits fp)).
    rewrite plainc_no_slash by apply plainc_render_digits. reflexivity.
  - destruct (fl_ex f) as [[[up sg] ed]|]; [|reflexivity]. cbn [has_byte existsb].
    change (existsb (N.eqb cSlash) ?x) with (has_byte cSlash x).
    rewrite has_byte_app, (plainc_no_slash (render_digits ed)) by apply plainc_render_digits.
    destruct up; destruct (sg =? 1); destruct (sg =? 2); reflexivity.
Qed.

Lemma wf_float_ip f : wf_float f = true ->
  exists d r, fl_ip f = d :: r /\ wf_nat (mkNat 10 false (d :: r)) = true.
Proof.
  unfold wf_float. intros W. do 3 (apply andb_true_iff in W as [W _]).
  destruct (fl_ip f) as [|d r] eqn:E.
  - discriminate.
  - exists d, r. split; [reflexivity|exact W].
Qed.

Lemma float_literal_text f : wf_float f = true ->
  has_byte cSlash (render_float f) = false /\ int_setstring0 (render_float f) = None.
Proof.
  intros W. destruct (wf_float_ip f W) as (d & r & Eip & Wip).
  destruct (float_rest_head f W) as (t0 & T & ER & St).
  rewrite render_float_split, Eip. split.
  - rewrite !has_byte_app, float_rest_no_slash, (plainc_no_slash (render_digits (d :: r))) by apply plainc_render_digits.
    destruct (fl_neg f); reflexivity.
  - rewrite ER. destruct (nat_scan_ip_stop d r t0 T Wip St) as (v & NS).
    destruct (fl_neg f); cbn [sign_bytes app].
    + unfold int_setstring0. cbn [N.eqb Pos.eqb cMinus orb]. rewrite NS. reflexivity.
    + cbn [render_digits app] in *. unfold int_setstring0.
      pose proof (plainc_dig_char d) as P. unfold plainc in P.
      apply andb_true_iff in P as [P P3]. apply andb_true_iff in P as [_ P2].
      apply negb_true_iff in P2, P3. rewrite P2, P3. cbn [orb]. rewrite NS. reflexivity.
Qed.

Lemma special_text k ups :
  has_byte cSlash (render_special k ups) = false /\ int_setstring0 (render_special k ups) = None.
Proof.
  destruct ups as [|u1 [|u2 [|u3 t]]]; destruct k;
    try destruct u1; try destruct u2; try destruct u3; split; reflexivity.
Qed.

Section Literals.
  Variable pf : bytes -> option N.
  Hypothesis L : contract_L pf.

  Theorem literal_value_float f : wf_float f = true ->
    overflows (float_mant f) (float_exp10 f) = false ->
    parse_num pf (render_float f) = PNum (NFloat (rne_bits (fl_neg f) (float_mant f) (float_exp10 f))).
  Proof.
    intros W O. destruct (float_literal_text f W) as [NS NI].
    unfold parse_num. rewrite NS, NI, (L_float _ L f W). unfold go_pf_of_float. rewrite O. reflexivity.
  Qed.

  Theorem literal_value l : wf_lit l = true -> out_of_range l = false ->
    check_literal l (parse_num pf (render l)) = true.
  Proof.
    intros W O. destruct l as [neg n|neg n d|f|k ups].
    - cbn [wf_lit] in W. rewrite literal_value_int by exact W. cbn. apply num_eqb_refl.
    - cbn [wf_lit] in W. apply andb_true_iff in W as [W Nz]. apply andb_true_iff in W as [Wn Wd].
      apply negb_true_iff, N.eqb_neq in Nz.
      rewrite literal_value_rat by assumption. cbn. apply num_eqb_refl.
    - cbn [wf_lit out_of_range] in *. cbn [render]. rewrite literal_value_float by assumption.
      cbn. apply N.eqb_refl.
    - cbn [render]. destruct (special_text k ups) as [NS NI]. unfold parse_num. rewrite NS, NI.
      destruct k.
      + rewrite (L_pinf _ L). reflexivity.
      + rewrite (L_ninf _ L). reflexivity.
      + destruct (L_nan _ L ups) as (b & -> & NB). cbn. exact NB.
  Qed.
End Literals.
