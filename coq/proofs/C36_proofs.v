(* Proofs for C36: the modelled escaping decisions and line breaking of
   pkg/md/fmt.go. *)
From Coq Require Import Arith.
From verif Require Import lib.Base lib.ListX model.C35_Bal model.C35_Inline model.C36.
Open Scope N_scope.

(* ================= code fences ================= *)
Lemma fence_len_ge3 lens : (3 <= fence_len lens)%nat.
Proof. induction lens as [|x l IH]; simpl; lia. Qed.

Lemma fence_len_gt lens c : In c lens -> (c < fence_len lens)%nat.
Proof.
  induction lens as [|x l IH]; intros H; [destruct H|].
  simpl. destruct H as [H|H]; [subst; lia|]. apply IH in H. lia.
Qed.

(* the run at the head of [s] (continuing a run of [cur]) is reported *)
Lemma run_lens_head ch : forall s cur,
  (0 < cur + span (fun x => N.eqb x ch) s)%nat ->
  In (cur + span (fun x => N.eqb x ch) s)%nat (run_lens ch cur s).
Proof.
  induction s as [|c r IH]; intros cur H; simpl in *.
  - rewrite Nat.add_0_r in *. destruct cur; [lia|]. left. reflexivity.
  - destruct (c =? ch).
    + replace (cur + S (span (fun x => N.eqb x ch) r))%nat with (S cur + span (fun x => N.eqb x ch) r)%nat by lia.
      apply IH. lia.
    + rewrite Nat.add_0_r in *. destruct cur; [lia|]. left. reflexivity.
Qed.

Lemma run_lens_skip_other ch c r : (c =? ch) = false -> run_lens ch 0 (c :: r) = run_lens ch 0 r.
Proof. intros H. simpl. rewrite H. reflexivity. Qed.

Lemma strip_spaces_runs ch : ch <> 32 -> forall n s,
  run_lens ch 0 s = run_lens ch 0 (strip_spaces n s).
Proof.
  intros Hch. induction n as [|n IH]; intros s; [reflexivity|].
  destruct s as [|c r]; [reflexivity|]. simpl strip_spaces.
  destruct (c =? 32) eqn:E; [|reflexivity].
  apply N.eqb_eq in E. subst c. rewrite run_lens_skip_other.
  - apply IH.
  - apply N.eqb_neq. congruence.
Qed.

Lemma closer_has_run ch k line : ch <> 32 ->
  is_closer ch k line = true -> exists c, In c (run_lens ch 0 line) /\ (k <= c)%nat.
Proof.
  intros Hch H. unfold is_closer in H.
  apply andb_true_iff in H as [H _]. apply andb_true_iff in H as [H3 Hk].
  apply Nat.leb_le in H3. apply Nat.leb_le in Hk.
  exists (span (fun x => N.eqb x ch) (strip_spaces 3 line)). split; [|exact Hk].
  rewrite (strip_spaces_runs ch Hch 3 line).
  apply (run_lens_head ch (strip_spaces 3 line) 0). lia.
Qed.

Lemma no_closer_in_content ch lines l : ch <> 32 -> In l lines ->
  is_closer ch (fence_len (all_run_lens ch lines)) l = false.
Proof.
  intros Hch Hin. destruct (is_closer ch _ l) eqn:E; [|reflexivity].
  apply closer_has_run in E; [|exact Hch]. destruct E as (c & Hc & Hk).
  assert (In c (all_run_lens ch lines)).
  { unfold all_run_lens. apply in_flat_map. exists l. split; assumption. }
  apply fence_len_gt in H. lia.
Qed.

Lemma has_prefix_app a b : has_prefix a (a ++ b) = true.
Proof. induction a as [|x a IH]; simpl; [reflexivity|]. rewrite N.eqb_refl. exact IH. Qed.

Lemma forallb_repeat (ch : N) n : forallb (fun x => N.eqb x ch) (repeat ch n) = true.
Proof. induction n; simpl; [reflexivity|]. rewrite N.eqb_refl. assumption. Qed.

Lemma esc_info_no_bt s : existsb is_bt s = false -> existsb is_bt (esc_info s) = false.
Proof.
  assert (G : forall n s, (length s <= n)%nat -> existsb is_bt s = false -> existsb is_bt (esc_info s) = false).
  { clear s. induction n as [|n IH]; intros s Hl H.
    - destruct s; [reflexivity|simpl in Hl; lia].
    - destruct s as [|c r]; [reflexivity|]. simpl in Hl.
      simpl in H. apply orb_false_iff in H as [Hc Hr].
      cbn [esc_info].
      destruct (c =? 92) eqn:E1.
      { simpl. apply IH; [lia|assumption]. }
      destruct (c =? 10) eqn:E2.
      { rewrite existsb_app. simpl. apply IH; [lia|assumption]. }
      destruct ((c =? 38) && negb (Nat.eqb (char_ref_len (c :: r)) 0)).
      { simpl. apply IH; [lia|assumption]. }
      simpl. rewrite Hc. apply IH; [lia|assumption]. }
  apply (G (length s)). lia.
Qed.

Theorem code_fence_safe info lines :
  fence_safe info lines (fst (code_fences info lines)) (snd (code_fences info lines)) = true.
Proof.
  unfold code_fences. cbv zeta.
  set (ch := if existsb is_bt info then TILDE else BT).
  set (k := fence_len (all_run_lens ch lines)).
  assert (Hk : (3 <= k)%nat) by apply fence_len_ge3.
  assert (Hch : ch <> 32) by (unfold ch; destruct (existsb is_bt info); discriminate).
  assert (NC : forall l, In l lines -> is_closer ch k l = false).
  { intros l Hl. unfold k. apply no_closer_in_content; assumption. }
  clearbody k.
  cbn [fst snd]. unfold fence_safe.
  destruct k as [|k']; [lia|].
  change (repeat ch (S k')) with (ch :: repeat ch k'). cbv iota beta.
  change (ch :: repeat ch k') with (repeat ch (S k')).
  set (K := S k') in *.
  apply andb_true_iff; split; [apply andb_true_iff; split; [apply andb_true_iff; split;
    [apply andb_true_iff; split; [apply andb_true_iff; split|]|]|]|].
  - unfold ch. destruct (existsb is_bt info); reflexivity.
  - apply forallb_repeat.
  - rewrite repeat_length. apply Nat.leb_le. exact Hk.
  - apply forallb_forall. intros l Hl. rewrite repeat_length.
    rewrite NC by assumption. reflexivity.
  - apply has_prefix_app.
  - rewrite repeat_length.
    assert (S1 : forall (b : bytes), skipn K (repeat ch K ++ b) = b).
    { intros b. rewrite skipn_app, repeat_length, Nat.sub_diag, skipn_all2 by (rewrite repeat_length; lia).
      reflexivity. }
    rewrite S1. unfold ch. destruct (existsb is_bt info) eqn:B; [reflexivity|].
    simpl. rewrite esc_info_no_bt by assumption. reflexivity.
Qed.

(* ================= reflow ================= *)
Lemma reflow_concat maxw : forall spans cur curw,
  concat (reflow maxw cur curw spans) = rev cur ++ spans.
Proof.
  induction spans as [|s r IH]; intros cur curw.
  - simpl. destruct cur; [reflexivity|]. simpl. rewrite !app_nil_r. reflexivity.
  - cbn [reflow]. destruct cur as [|c0 cur'].
    + rewrite IH. reflexivity.
    + destruct (Nat.leb (curw + 1 + length s) maxw).
      * rewrite IH. simpl. rewrite <- !app_assoc. reflexivity.
      * cbn [concat]. rewrite IH. simpl. rewrite <- !app_assoc. reflexivity.
Qed.

Theorem reflow_preserves_words maxw spans : concat (reflow maxw [] 0 spans) = spans.
Proof. apply reflow_concat. Qed.

Lemma join_sp_snoc l s : l <> [] -> join_sp (l ++ [s]) = join_sp l ++ 32 :: s.
Proof.
  induction l as [|x l IH]; intros H; [congruence|].
  destruct l as [|y l'].
  - reflexivity.
  - change ((x :: y :: l') ++ [s]) with (x :: ((y :: l') ++ [s])).
    change (join_sp (x :: (y :: l') ++ [s])) with (x ++ 32 :: join_sp ((y :: l') ++ [s])).
    rewrite IH by discriminate.
    change (join_sp (x :: y :: l')) with (x ++ 32 :: join_sp (y :: l')).
    rewrite <- app_assoc. reflexivity.
Qed.

Definition line_ok (maxw : nat) (l : list bytes) : Prop :=
  (line_width l <= maxw)%nat \/ length l = 1%nat.

Lemma reflow_lines_ok maxw : forall spans cur curw,
  (cur = [] \/ (curw = line_width (rev cur) /\ line_ok maxw (rev cur))) ->
  Forall (line_ok maxw) (reflow maxw cur curw spans).
Proof.
  induction spans as [|s r IH]; intros cur curw Inv.
  - simpl. destruct cur; [constructor|]. destruct Inv as [Inv|[_ Ok]]; [discriminate|].
    constructor; [exact Ok|constructor].
  - cbn [reflow]. destruct cur as [|c0 cur'].
    + apply IH. right. simpl. split; [unfold line_width; simpl; reflexivity|right; reflexivity].
    + destruct Inv as [Inv|[Ew Ok]]; [discriminate|].
      destruct (Nat.leb (curw + 1 + length s) maxw) eqn:E.
      * apply Nat.leb_le in E. apply IH. right.
        assert (W : line_width (rev (s :: c0 :: cur')) = (curw + 1 + length s)%nat).
        { unfold line_width in *. change (rev (s :: c0 :: cur')) with (rev (c0 :: cur') ++ [s]).
          rewrite join_sp_snoc.
          - rewrite app_length. cbn [length]. rewrite Ew. unfold line_width. lia.
          - intros Hn. apply (f_equal (@length bytes)) in Hn. rewrite rev_length in Hn. discriminate. }
        split; [symmetry; exact W|]. left. rewrite W. exact E.
      * constructor; [exact Ok|]. apply IH. right. simpl.
        split; [unfold line_width; simpl; reflexivity|right; reflexivity].
Qed.

Theorem reflow_fits_or_unbreakable maxw spans :
  Forall (line_ok maxw) (reflow maxw [] 0 spans).
Proof. apply reflow_lines_ok. left. reflexivity. Qed.

(* ================= escapeText ================= *)
Lemma unescape_bs_pair c rest : is_ascii_punct c = true ->
  unescape_bs false (92 :: c :: rest) = c :: unescape_bs false rest.
Proof. intros H. simpl. rewrite H. reflexivity. Qed.

Lemma unescape_bs_plain c rest : (c =? 92) = false ->
  unescape_bs false (c :: rest) = c :: unescape_bs false rest.
Proof. intros H. simpl. rewrite H. reflexivity. Qed.

Lemma active_pair c rest : is_ascii_punct c = true ->
  active_metas false (92 :: c :: rest) = active_metas false rest.
Proof. intros H. simpl. rewrite H. reflexivity. Qed.

Lemma active_plain c rest : always_meta c = false ->
  active_metas false (c :: rest) = active_metas false rest.
Proof.
  intros H. simpl.
  assert (E : (c =? 92) = false).
  { unfold always_meta in H. repeat (apply orb_false_iff in H; destruct H as [H ?]). assumption. }
  rewrite E, H. reflexivity.
Qed.

Lemma esc_text_spec : forall s pw,
  unescape_bs false (esc_text pw s) = nbsp_expand (map fst s)
  /\ active_metas false (esc_text pw s) = [].
Proof.
  induction s as [|[c w] r IH]; intros pw; [split; reflexivity|].
  destruct (IH w) as [IH1 IH2].
  cbn [esc_text map fst]. unfold nbsp_expand in *. cbn [flat_map].
  set (rest := esc_text w r) in *.
  destruct ((c =? 91) || (c =? 93) || (c =? 42) || (c =? 96) || (c =? 92) || (c =? 60)) eqn:M.
  { assert (P : is_ascii_punct c = true /\ (c =? NBSP) = false).
    { repeat (apply orb_true_iff in M; destruct M as [M|M]);
        apply N.eqb_eq in M; subst c; split; reflexivity. }
    destruct P as [P Q]. rewrite Q. simpl app.
    rewrite unescape_bs_pair, active_pair by assumption. rewrite IH1, IH2. split; reflexivity. }
  assert (AM : always_meta c = false) by exact M.
  assert (N92 : (c =? 92) = false).
  { unfold always_meta in AM. repeat (apply orb_false_iff in AM; destruct AM as [AM ?]). assumption. }
  destruct (c =? 95) eqn:E95.
  { apply N.eqb_eq in E95. subst c.
    destruct (pw && match r with (_, w') :: _ => w' | [] => false end); simpl app.
    - rewrite unescape_bs_plain, active_plain by reflexivity. rewrite IH1, IH2. split; reflexivity.
    - rewrite unescape_bs_pair, active_pair by reflexivity. rewrite IH1, IH2. split; reflexivity. }
  destruct (c =? 38) eqn:E38.
  { apply N.eqb_eq in E38. subst c.
    destruct (Nat.eqb (char_ref_len (38 :: map fst r)) 0); simpl app.
    - rewrite unescape_bs_plain, active_plain by reflexivity. rewrite IH1, IH2. split; reflexivity.
    - rewrite unescape_bs_pair, active_pair by reflexivity. rewrite IH1, IH2. split; reflexivity. }
  destruct (c =? NBSP) eqn:E160.
  { unfold NBSP_ENT. simpl app.
    rewrite !unescape_bs_plain by reflexivity. rewrite !active_plain by reflexivity.
    rewrite IH1, IH2. split; reflexivity. }
  simpl app. rewrite unescape_bs_plain, active_plain by assumption.
  rewrite IH1, IH2. split; reflexivity.
Qed.

