(* C34 — wcwidth.inRange: the sort.Search binary search over a sorted, disjoint
   range table computes plain membership, for every rune. *)
From verif Require Import lib.Base model.C34_width.
Open Scope Z_scope.

Section Search.
  Variable f : Z -> bool.
  Variable n : Z.
  Hypothesis mono : forall a b, 0 <= a -> a <= b -> b < n -> f a = true -> f b = true.

  Lemma half_bounds i j : i < j -> i <= (i + j) / 2 < j.
  Proof.
    intros H. pose proof (Z.div_mod (i + j) 2 ltac:(lia)).
    pose proof (Z.mod_pos_bound (i + j) 2 ltac:(lia)). lia.
  Qed.

  Lemma search_spec fuel : forall i j,
    0 <= i -> i <= j -> j <= n -> j - i <= Z.of_nat fuel ->
    (forall k, 0 <= k < i -> f k = false) ->
    (forall k, j <= k < n -> f k = true) ->
    let m := search_fuel fuel f i j in
    i <= m <= j /\ (forall k, 0 <= k < m -> f k = false) /\ (forall k, m <= k < n -> f k = true).
  Proof.
    induction fuel as [|fuel IH]; intros i j Hi Hij Hjn Hf Hlo Hhi; cbn [search_fuel].
    - assert (i = j) by lia. subst j. cbv zeta. repeat split; auto; lia.
    - destruct (i <? j) eqn:E.
      + apply Z.ltb_lt in E. pose proof (half_bounds i j E) as Hh.
        destruct (f ((i + j) / 2)) eqn:Efh.
        * destruct (IH i ((i + j) / 2)) as (H1 & H2 & H3); try lia; auto.
          { intros k Hk. apply (mono ((i + j) / 2) k); try lia. exact Efh. }
          cbv zeta. repeat split; auto; lia.
        * destruct (IH ((i + j) / 2 + 1) j) as (H1 & H2 & H3); try lia; auto.
          { intros k Hk. destruct (f k) eqn:Ek; [|reflexivity].
            assert (f ((i + j) / 2) = true) by (apply (mono k); try lia; exact Ek). congruence. }
          cbv zeta. repeat split; auto; lia.
      + apply Z.ltb_ge in E. assert (i = j) by lia. subst j. cbv zeta. repeat split; auto; lia.
  Qed.
End Search.

(* sortedness as facts about positions *)
Lemma sorted_facts l : forall lo, ranges_sorted_from lo l = true ->
  forall q, (q < length l)%nat ->
    lo < fst (nth q l (0, 0)) /\ fst (nth q l (0, 0)) <= snd (nth q l (0, 0))
    /\ forall q', (q < q' < length l)%nat -> snd (nth q l (0, 0)) < fst (nth q' l (0, 0)).
Proof.
  induction l as [|[a b] r IH]; intros lo H q Hq; [cbn in Hq; lia|].
  cbn [ranges_sorted_from] in H. apply andb_true_iff in H. destruct H as [H Hr].
  apply andb_true_iff in H. destruct H as [H1 H2]. apply Z.ltb_lt in H1. apply Z.leb_le in H2.
  destruct q as [|q].
  - cbn [nth fst snd]. repeat split; try lia. intros q' Hq'. destruct q' as [|q']; [lia|].
    cbn [nth]. cbn [length] in Hq'. destruct (IH b Hr q' ltac:(lia)) as (Hlt & _). exact Hlt.
  - cbn [length] in Hq. cbn [nth]. destruct (IH b Hr q ltac:(lia)) as (Hlt & Hle & Hnext).
    repeat split; try lia. intros q' Hq'. destruct q' as [|q']; [lia|]. cbn [nth].
    apply Hnext. cbn [length] in Hq'. lia.
Qed.

Lemma existsb_nth (l : list (Z * Z)) r :
  in_range_lin r l = true <->
  exists q, (q < length l)%nat /\ fst (nth q l (0, 0)) <= r <= snd (nth q l (0, 0)).
Proof.
  unfold in_range_lin. rewrite existsb_exists. split.
  - intros (p & Hin & Hp). apply (In_nth _ _ (0, 0)) in Hin. destruct Hin as (q & Hq & Hn).
    exists q. split; [exact Hq|]. rewrite Hn. apply andb_true_iff in Hp. destruct Hp as [A B].
    apply Z.leb_le in A. apply Z.leb_le in B. lia.
  - intros (q & Hq & Hr). exists (nth q l (0, 0)). split; [apply nth_In; exact Hq|].
    apply andb_true_iff. split; apply Z.leb_le; lia.
Qed.

(* table_search: for every sorted table and every rune *)
Lemma in_range_correct l r : ranges_sorted l = true -> in_range r l = in_range_lin r l.
Proof.
  intros Hs. unfold ranges_sorted in Hs. pose proof (sorted_facts l (-1) Hs) as Hf.
  set (n := Z.of_nat (length l)).
  set (f := fun i => r <=? snd (range_at l i)).
  assert (Hmono : forall a b, 0 <= a -> a <= b -> b < n -> f a = true -> f b = true).
  { intros a b Ha Hab Hb Hfa. unfold f, range_at in *. apply Z.leb_le in Hfa. apply Z.leb_le.
    destruct (Z.eq_dec a b) as [->|Hne]; [exact Hfa|].
    destruct (Hf (Z.to_nat a) ltac:(lia)) as (_ & _ & Hnext).
    specialize (Hnext (Z.to_nat b) ltac:(lia)).
    destruct (Hf (Z.to_nat b) ltac:(lia)) as (_ & Hle & _). lia. }
  destruct (search_spec f n Hmono (S (length l)) 0 n) as (Hm & Hlow & Hhigh); try lia.
  unfold in_range. fold n. fold f.
  set (m := search_fuel (S (length l)) f 0 n) in *.
  destruct (in_range_lin r l) eqn:El.
  - apply existsb_nth in El. destruct El as (q & Hq & Hr).
    assert (Hfq : f (Z.of_nat q) = true).
    { unfold f, range_at. rewrite Nat2Z.id. apply Z.leb_le. lia. }
    assert (Hmq : m <= Z.of_nat q).
    { destruct (Z_le_gt_dec m (Z.of_nat q)); [assumption|].
      rewrite Hlow in Hfq by lia. discriminate. }
    assert (Hmn : m < n) by lia.
    assert (Hfm : f m = true) by (apply Hhigh; lia).
    unfold f, range_at in Hfm. apply Z.leb_le in Hfm.
    assert (m = Z.of_nat q).
    { destruct (Z.eq_dec m (Z.of_nat q)); [assumption|]. exfalso.
      destruct (Hf (Z.to_nat m) ltac:(lia)) as (_ & _ & Hnext).
      specialize (Hnext q ltac:(lia)). lia. }
    apply andb_true_iff. split; [apply Z.ltb_lt; lia|].
    unfold range_at. subst m. rewrite H, Nat2Z.id. apply Z.leb_le. lia.
  - destruct ((m <? n) && (fst (range_at l m) <=? r)) eqn:E; [|reflexivity].
    apply andb_true_iff in E. destruct E as [E1 E2]. apply Z.ltb_lt in E1. apply Z.leb_le in E2.
    assert (Hfm : f m = true) by (apply Hhigh; lia).
    unfold f in Hfm. apply Z.leb_le in Hfm.
    assert (in_range_lin r l = true).
    { apply existsb_nth. exists (Z.to_nat m). split; [lia|]. unfold range_at in *. lia. }
    congruence.
Qed.
