(* C33 — proofs, part 3: restyling, Segment/Text Concat, refutations, oracle soundness. *)
From verif Require Import lib.Base lib.Utf8 model.C34_width model.C33 proofs.C33_proofs proofs.C33_proofs2.
Open Scope Z_scope.

(* ---- StyleText ---- *)
Lemma style_text_content t ts : content (style_text t ts) = content t.
Proof.
  induction t as [|[s x] r IH]; [reflexivity|].
  change (style_text ((s, x) :: r) ts) with ((apply_styling s ts, x) :: style_text r ts).
  rewrite !content_cons, IH. reflexivity.
Qed.

Lemma style_text_length t ts : length (style_text t ts) = length t.
Proof. apply map_length. Qed.

(* restyle_normal_partial: restyling keeps the normal form when the styling
   does not identify two different styles *)
Lemma restyle_normal_partial t ts :
  (forall s1 s2, apply_styling s1 ts = apply_styling s2 ts -> s1 = s2) ->
  Normal t -> Normal (style_text t ts).
Proof.
  intros Hinj. induction t as [|[s x] r IH]; intros Hn; [exact I|].
  apply Normal_cons in Hn. destruct Hn as (Hx & Hh & Hr).
  change (style_text ((s, x) :: r) ts) with ((apply_styling s ts, x) :: style_text r ts).
  apply Normal_cons. split; [exact Hx|]. split; [|apply IH; exact Hr].
  destruct r as [|[s' x'] r']; cbn; [congruence|].
  intros E. apply Hh. cbn. inversion E as [E']. apply Hinj in E'. congruence.
Qed.

(* toggles are such stylings *)
Definition is_toggle (t : styling) : bool := match t with SToggle _ => true | _ => false end.

Lemma toggle_injective f s1 s2 :
  transform (SToggle f) s1 = transform (SToggle f) s2 -> s1 = s2.
Proof.
  destruct s1, s2, f; cbn; intros E; inversion E; subst; f_equal;
    match goal with H : negb ?a = negb ?b |- ?a = ?b => destruct a, b; cbn in H; congruence end.
Qed.

Lemma toggles_injective ts : forallb is_toggle ts = true ->
  forall s1 s2, apply_styling s1 ts = apply_styling s2 ts -> s1 = s2.
Proof.
  unfold apply_styling. induction ts as [|t ts IH]; intros Ht s1 s2 E; [exact E|].
  cbn [forallb] in Ht. apply andb_true_iff in Ht. destruct Ht as [H1 H2].
  cbn [fold_left] in E. apply IH in E; [|exact H2].
  destruct t; try discriminate. eapply toggle_injective; exact E.
Qed.

(* T *)
Lemma T_normal s ts : Normal (T s ts) /\ content (T s ts) = s.
Proof.
  unfold T. destruct s as [|c s']; cbn [is_nil]; [split; [exact I | reflexivity]|].
  split; [cbn; repeat split; congruence | cbn; f_equal; apply app_nil_r].
Qed.

(* Text.Concat / RConcat with strings, texts: through the builder *)
Lemma text_concat_text_normal t t2 :
  Normal t -> Normal t2 ->
  Normal (text_concat_text t t2) /\ content (text_concat_text t t2) = content t ++ content t2.
Proof.
  intros H1 H2. unfold text_concat_text.
  destruct (builder_normal [t; t2]) as (Hn & Hc); [repeat constructor; assumption|].
  split; [exact Hn|]. rewrite Hc. cbn. rewrite app_nil_r. reflexivity.
Qed.

Lemma text_concat_str_normal t rhs :
  Normal t ->
  Normal (text_concat_str t rhs) /\ content (text_concat_str t rhs) = content t ++ rhs.
Proof.
  intros H1. unfold text_concat_str. destruct (T_normal rhs []) as (Hn & Hc).
  destruct (builder_normal [t; T rhs []]) as (Hn' & Hc'); [repeat constructor; assumption|].
  split; [exact Hn'|]. rewrite Hc'. cbn [flat_map]. rewrite Hc, app_nil_r. reflexivity.
Qed.

Lemma text_rconcat_str_normal lhs t :
  Normal t ->
  Normal (text_rconcat_str lhs t) /\ content (text_rconcat_str lhs t) = lhs ++ content t.
Proof.
  intros H1. unfold text_rconcat_str. destruct (T_normal lhs []) as (Hn & Hc).
  destruct (builder_normal [T lhs []; t]) as (Hn' & Hc'); [repeat constructor; assumption|].
  split; [exact Hn'|]. rewrite Hc'. cbn [flat_map]. rewrite Hc, app_nil_r. reflexivity.
Qed.

(* Text.Concat with a Segment (any segment, also one with an empty text) *)
Lemma text_concat_seg_normal t sg :
  Normal t ->
  Normal (text_concat_seg t sg) /\ content (text_concat_seg t sg) = content t ++ snd sg.
Proof.
  intros H1. unfold text_concat_seg.
  destruct (builder_normal [t; text_from_seg sg]) as (Hn' & Hc').
  { repeat constructor; [assumption | apply Normal_tfs]. }
  split; [exact Hn'|]. etransitivity; [exact Hc'|]. cbn [flat_map]. rewrite content_tfs, app_nil_r. reflexivity.
Qed.

(* Segment.Concat / RConcat: any segment (empty text, any style) with any
   string / segment / normal text *)
Lemma seg_concat_str_normal sg rhs :
  Normal (seg_concat_str sg rhs) /\ content (seg_concat_str sg rhs) = snd sg ++ rhs.
Proof.
  unfold seg_concat_str. destruct (T_normal rhs []) as (Hn & Hc).
  destruct (builder_normal [text_from_seg sg; T rhs []]) as (Hn' & Hc').
  { repeat constructor; [apply Normal_tfs | exact Hn]. }
  split; [exact Hn'|]. etransitivity; [exact Hc'|]. cbn [flat_map]. rewrite content_tfs, Hc, app_nil_r. reflexivity.
Qed.

Lemma seg_concat_seg_normal sg sg2 :
  Normal (seg_concat_seg sg sg2) /\ content (seg_concat_seg sg sg2) = snd sg ++ snd sg2.
Proof.
  unfold seg_concat_seg.
  destruct (builder_normal [text_from_seg sg; text_from_seg sg2]) as (Hn' & Hc').
  { repeat constructor; apply Normal_tfs. }
  split; [exact Hn'|]. etransitivity; [exact Hc'|]. cbn [flat_map]. rewrite !content_tfs, app_nil_r. reflexivity.
Qed.

Lemma seg_concat_text_normal sg t :
  Normal t ->
  Normal (seg_concat_text sg t) /\ content (seg_concat_text sg t) = snd sg ++ content t.
Proof.
  intros Ht. unfold seg_concat_text.
  destruct (builder_normal [text_from_seg sg; t]) as (Hn' & Hc').
  { repeat constructor; [apply Normal_tfs | exact Ht]. }
  split; [exact Hn'|]. etransitivity; [exact Hc'|]. cbn [flat_map]. rewrite content_tfs, app_nil_r. reflexivity.
Qed.

Lemma seg_rconcat_str_normal lhs sg :
  Normal (seg_rconcat_str lhs sg) /\ content (seg_rconcat_str lhs sg) = lhs ++ snd sg.
Proof.
  unfold seg_rconcat_str. destruct (T_normal lhs []) as (Hn & Hc).
  destruct (builder_normal [T lhs []; text_from_seg sg]) as (Hn' & Hc').
  { repeat constructor; [exact Hn | apply Normal_tfs]. }
  split; [exact Hn'|]. etransitivity; [exact Hc'|]. cbn [flat_map]. rewrite content_tfs, Hc, app_nil_r. reflexivity.
Qed.

(* StyleText of the empty text is nil *)
Lemma restyle_nil ts : run_op (OpStyleText [] ts) = [(true, [])].
Proof. reflexivity. Qed.

(* ------------------------------------------------------------------ *)
(* Refutation: the one remaining witness on which the faithful model leaves the
   normal form (StyleText; pinned by the existing test TestStyleText) *)

From Coq Require Import Strings.String.

Definition sBold : style := mkStyle None None true false false false false false.

Lemma restyle_normal_refuted :
  exists t ts, normalb t = true /\ normalb (style_text t ts) = false.
Proof.
  exists [(sBold, hx "61"%string); (style0, hx "62"%string)], [SOn FBold].
  split; vm_compute; reflexivity.
Qed.

(* ------------------------------------------------------------------ *)
(* Oracle soundness (the building blocks of check_C33) *)

Lemma res_normal_sound r :
  res_normal r = true -> Normal (snd r) /\ (snd r = [] -> fst r = true).
Proof.
  unfold res_normal. intros H. apply andb_true_iff in H. destruct H as [H1 H2].
  split; [apply normalb_spec; exact H1|].
  intros E. rewrite E in H2. cbn in H2. exact H2.
Qed.

Lemma content_is_sound rs e :
  content_is rs e = true -> exists flag t, rs = [(flag, t)] /\ content t = e.
Proof.
  unfold content_is, one. destruct rs as [|[flag t] [|? ?]]; try discriminate.
  cbn [snd]. intros H. apply bytes_eqb_spec in H. exists flag, t. split; [reflexivity | exact H].
Qed.

Lemma check_normal_sound o rs :
  check_C33 o rs = true ->
  (forall s ts, o <> OpStyleSeg s ts) ->
  Forall (fun r => Normal (snd r) /\ (snd r = [] -> fst r = true)) rs.
Proof.
  unfold check_C33. intros H Ho. apply andb_true_iff in H. destruct H as [H _].
  assert (Hf : forallb res_normal rs = true).
  { destruct o; try exact H. exfalso. eapply Ho. reflexivity. }
  apply Forall_forall. intros r Hr. apply res_normal_sound.
  rewrite forallb_forall in Hf. apply Hf. exact Hr.
Qed.

(* non-vacuity: the oracle accepts what the model returns for a regular input,
   and rejects the defect witnesses *)
Example oracle_accepts_partition :
  let o := OpPartition [(sBold, hx "6162"%string); (style0, hx "63"%string)] [1; 3] in
  check_C33 o (run_op o) = true.
Proof. vm_compute. reflexivity. Qed.

(* the oracle rejects what TrimWcwidth returned before the repair ... *)
Example oracle_rejects_old_trim_result :
  check_C33 (OpTrim [(sBold, hx "61"%string); (style0, hx "e4b8ad"%string)] 2)
            [(false, [(sBold, hx "61"%string); (style0, [])])] = false.
Proof. vm_compute. reflexivity. Qed.

(* ... and accepts what the repaired model returns *)
Example oracle_accepts_trim :
  let o := OpTrim [(sBold, hx "61"%string); (style0, hx "e4b8ad"%string)] 2 in
  check_C33 o (run_op o) = true.
Proof. vm_compute. reflexivity. Qed.
