(* C07 — final statements: the lemmas of C07_node with their hypotheses
   bundled ([KeyOK]), the soundness of the oracle, and the instance used by
   the correspondence cases. *)
From Coq Require Import Permutation ZifyBool ZifyNat ZifyN.
From verif Require Import lib.Base lib.ListX model.C07 proofs.C07_swar proofs.C07_bits
  proofs.C07_lists proofs.C07_node.
Open Scope nat_scope.

(* "eq is an equivalence, eq keys hash alike, hashes are uint32" *)
Record KeyOK {K : Type} (eqk : K -> K -> bool) (hash : K -> N) : Prop := mkKeyOK {
  ok_refl : forall a, eqk a a = true;
  ok_sym : forall a b, eqk a b = eqk b a;
  ok_trans : forall a b c, eqk a b = true -> eqk b c = true -> eqk a c = true;
  ok_compat : forall a b, eqk a b = true -> hash a = hash b;
  ok_bound : forall a, (hash a < 2 ^ 32)%N }.

Section Final.
Context {K V : Type} (eqk : K -> K -> bool) (hash : K -> N) (OK : KeyOK eqk hash).

Notation MapInv := (MapInv K V eqk hash).
Notation Index := (Index K V eqk hash).
Notation Assoc := (Assoc K V eqk hash).
Notation Dissoc := (Dissoc K V eqk hash).
Notation eqok := (eqo eqk).

Lemma inv_empty_f : MapInv empty.
Proof. destruct OK. eapply MapInv_empty; eauto. Qed.

Lemma inv_assoc_f m ko v : MapInv m -> exists m', Assoc m ko v = Some m' /\ MapInv m'
  /\ Permutation (Iter m') ((ko, v) :: s_remove eqok ko (Iter m)).
Proof. destruct OK. intros H. eapply Assoc_spec; eauto. Qed.

Lemma inv_dissoc_f m ko : MapInv m -> exists m', Dissoc m ko = Some m' /\ MapInv m'
  /\ Permutation (Iter m') (s_remove eqok ko (Iter m)).
Proof. destruct OK. intros H. eapply Dissoc_spec; eauto. Qed.

Lemma invariant_f :
  MapInv empty
  /\ (forall m ko v, MapInv m -> exists m', Assoc m ko v = Some m' /\ MapInv m')
  /\ (forall m ko, MapInv m -> exists m', Dissoc m ko = Some m' /\ MapInv m').
Proof.
  split; [exact inv_empty_f|]. split.
  - intros m ko v H. destruct (inv_assoc_f m ko v H) as (m' & E & I & _). eauto.
  - intros m ko H. destruct (inv_dissoc_f m ko H) as (m' & E & I & _). eauto.
Qed.

Lemma find_assoc_f m ko v ko' : MapInv m ->
  exists m', Assoc m ko v = Some m' /\ MapInv m' /\
    Index m' ko' = if eqok ko' ko then FRes (Some v) else Index m ko'.
Proof. destruct OK. intros H. eapply find_assoc_thm; eauto. Qed.

Lemma find_without_f m ko ko' : MapInv m ->
  exists m', Dissoc m ko = Some m' /\ MapInv m' /\
    Index m' ko' = if eqok ko' ko then FRes None else Index m ko'.
Proof. destruct OK. intros H. eapply find_without_thm; eauto. Qed.

Lemma count_exact_f m : MapInv m -> Len m = Z.of_nat (length (Iter m)).
Proof. intros [_ H]. exact H. Qed.

Lemma iter_once_f m : MapInv m ->
  NoDupK eqok (Iter m) /\ forall ko, Index m ko = FRes (s_lookup eqok ko (Iter m)).
Proof.
  destruct OK. intros H. split; [eapply Iter_nodup; eauto|]. intros ko. eapply Index_spec; eauto.
Qed.

Lemma history_refines_f (ops : list (op K V)) :
  exists ms, m_run eqk hash [empty] ops = Some ms
    /\ Forall2 (fun m s => VSpec K V eqk hash s m) ms (s_run eqk [[]] ops).
Proof. destruct OK. eapply history_refines; eauto. Qed.

Lemma old_versions_unchanged_f (ops : list (op K V)) ms ms' :
  m_run eqk hash ms ops = Some ms' ->
  forall i m, nth_error ms i = Some m -> nth_error ms' i = Some m.
Proof.
  intros H i m Hn. destruct (m_run_prefix K V eqk hash ops ms ms' H) as [tl ->].
  rewrite nth_error_app1; [exact Hn|]. apply nth_error_Some. congruence.
Qed.

End Final.

(* ---- termination: two different 32-bit hashes differ in some chunk ---- *)
Lemma distinct_hashes_differ_in_a_chunk h1 h2 : (h1 < 2 ^ 32)%N -> (h2 < 2 ^ 32)%N -> h1 <> h2 ->
  exists l, (l < 7)%N /\ chunk (5 * l) h1 <> chunk (5 * l) h2.
Proof.
  intros H1 H2 Hne.
  assert (P : forall l, (l <= 7)%N ->
            (forall j, (j < l)%N -> chunk (5 * j) h1 = chunk (5 * j) h2) ->
            (h1 mod 2 ^ (5 * l) = h2 mod 2 ^ (5 * l))%N).
  { induction l as [|l IH] using N.peano_ind; intros Hl Hj.
    - cbn. rewrite !N.mod_1_r. reflexivity.
    - replace (5 * N.succ l)%N with (5 * l + 5)%N by lia.
      rewrite !low_step, IH by (lia || (intros; apply Hj; lia)). rewrite (Hj l) by lia. reflexivity. }
  destruct (N.eq_dec (chunk 0 h1) (chunk 0 h2)) as [E0|]; [|exists 0%N; split; [lia|assumption]].
  destruct (N.eq_dec (chunk 5 h1) (chunk 5 h2)) as [E1|]; [|exists 1%N; split; [lia|assumption]].
  destruct (N.eq_dec (chunk 10 h1) (chunk 10 h2)) as [E2|]; [|exists 2%N; split; [lia|assumption]].
  destruct (N.eq_dec (chunk 15 h1) (chunk 15 h2)) as [E3|]; [|exists 3%N; split; [lia|assumption]].
  destruct (N.eq_dec (chunk 20 h1) (chunk 20 h2)) as [E4|]; [|exists 4%N; split; [lia|assumption]].
  destruct (N.eq_dec (chunk 25 h1) (chunk 25 h2)) as [E5|]; [|exists 5%N; split; [lia|assumption]].
  destruct (N.eq_dec (chunk 30 h1) (chunk 30 h2)) as [E6|]; [|exists 6%N; split; [lia|assumption]].
  exfalso. apply Hne. specialize (P 7%N ltac:(lia)).
  rewrite !mod_small_eq in P by (assumption || lia). apply P. intros j Hj.
  assert (j = 0 \/ j = 1 \/ j = 2 \/ j = 3 \/ j = 4 \/ j = 5 \/ j = 6)%N as Hc by lia.
  destruct Hc as [->|[->|[->|[->|[->|[->| ->]]]]]]; assumption.
Qed.

(* ---- the oracle ---- *)
Lemma s_nodup_NoDupK {SK SV} (eqs : SK -> SK -> bool) (l : list (SK * SV)) :
  s_nodup eqs l = true -> NoDupK eqs l.
Proof.
  induction l as [|[k v] l IH]; cbn; [auto|]. intros H. apply andb_true_iff in H as [H1 H2].
  split; [apply negb_true_iff; exact H1|auto].
Qed.

Lemma oN_eqb_eq a b : oN_eqb a b = true -> a = b.
Proof.
  destruct a, b; cbn; try discriminate; [|reflexivity]. intros H. apply N.eqb_eq in H. congruence.
Qed.

(* what the oracle demands of one observed version, as a proposition *)
Definition VersionSpec (hs : list N) (s : smap (option N) N) (o : vobs) : Prop :=
  let it := map dec (o_iter o) in
  let ix := map dec (o_idx o) in
  o_len o = Z.of_nat (length s)
  /\ (forall k, In k (universe hs) -> s_lookup okey_eqb k ix = s_lookup okey_eqb k s)
  /\ NoDupK okey_eqb it
  /\ length it = length s
  /\ (forall k v, In (k, v) it -> s_lookup okey_eqb k s = Some v).

Lemma check_version_sound hs s o : check_version hs s o = true -> VersionSpec hs s o.
Proof.
  unfold check_version, VersionSpec. intros H.
  repeat (apply andb_true_iff in H as [H ?]).
  split; [apply Z.eqb_eq; assumption|]. split.
  - intros k Hk. apply oN_eqb_eq.
    match goal with H0 : forallb _ (universe hs) = true |- _ => rewrite forallb_forall in H0; apply (H0 k Hk) end.
  - split; [apply s_nodup_NoDupK; assumption|]. split; [apply Nat.eqb_eq; assumption|].
    intros k v Hin.
    match goal with H0 : forallb _ (map dec (o_iter o)) = true |- _ =>
      rewrite forallb_forall in H0; specialize (H0 (k, v) Hin) end.
    apply oN_eqb_eq. assumption.
Qed.

Lemma check_versions_sound hs : forall ss os, check_versions hs ss os = true ->
  Forall2 (VersionSpec hs) ss os.
Proof.
  induction ss as [|s ss IH]; intros [|o os] H; cbn in H; try discriminate; constructor.
  - apply andb_true_iff in H as [H _]. apply check_version_sound. exact H.
  - apply andb_true_iff in H as [_ H]. apply IH. exact H.
Qed.

Lemma check_C07_sound hs ops obs late : check_C07 hs ops obs late = true ->
  Forall2 (VersionSpec hs) (s_run N.eqb [[]] ops) obs
  /\ (forall i o, In (i, o) late ->
        exists s, nth_error (s_run N.eqb [[]] ops) i = Some s /\ VersionSpec hs s o).
Proof.
  unfold check_C07. intros H. apply andb_true_iff in H as [H1 H2].
  split; [apply check_versions_sound; exact H1|]. intros i o Hin.
  rewrite forallb_forall in H2. specialize (H2 (i, o) Hin). cbn [fst snd] in H2.
  destruct (nth_error (s_run N.eqb [[]] ops) i) as [s|]; [|discriminate].
  exists s. split; [reflexivity|apply check_version_sound; exact H2].
Qed.

(* ---- the instance used by the correspondence cases ---- *)
Lemma instance_keyok hs : Forall (fun h => (h < 2 ^ 32)%N) hs -> KeyOK N.eqb (hash_of hs).
Proof.
  intros F. constructor.
  - apply N.eqb_refl.
  - apply N.eqb_sym.
  - intros a b c H1 H2. apply N.eqb_eq in H1, H2. apply N.eqb_eq. congruence.
  - intros a b H. apply N.eqb_eq in H. congruence.
  - intros a. unfold hash_of. destruct (nth_in_or_default (N.to_nat a) hs 0%N) as [Hin| ->]; [|reflexivity].
    rewrite Forall_forall in F. apply F. exact Hin.
Qed.
