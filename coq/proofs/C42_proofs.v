(* C42 -- lemmas about the port table, redirections and file operations. *)
From verif Require Import lib.Base model.C42_Ports model.C42.
From Coq Require Import ZifyBool ZifyNat.
Open Scope nat_scope.

(* ---------------------------------------------------------------- lists *)
Lemma length_list_upd {A} (l : list A) i x : length (list_upd l i x) = length l.
Proof. revert i; induction l as [|y l IH]; intros [|i]; simpl; auto. Qed.

Lemma nth_error_upd_same {A} (l : list A) i x :
  i < length l -> nth_error (list_upd l i x) i = Some x.
Proof.
  revert i; induction l as [|y l IH]; intros [|i] H; simpl in *; try lia; auto.
  apply IH; lia.
Qed.

Lemma nth_error_upd_other {A} (l : list A) i j x :
  i <> j -> nth_error (list_upd l i x) j = nth_error l j.
Proof.
  revert i j; induction l as [|y l IH]; intros [|i] [|j] H; simpl; auto; try congruence.
Qed.

Lemma length_grow {A} (d : A) l i : i < length (grow d l i).
Proof.
  unfold grow. destruct (Nat.ltb i (length l)) eqn:E.
  - apply Nat.ltb_lt in E; auto.
  - apply Nat.ltb_ge in E. rewrite app_length, repeat_length. lia.
Qed.

Lemma length_grow_ge {A} (d : A) l i : length l <= length (grow d l i).
Proof.
  unfold grow. destruct (Nat.ltb i (length l)); auto. rewrite app_length. lia.
Qed.

Lemma length_grow_eq {A} (d : A) l i : length (grow d l i) = Nat.max (length l) (S i).
Proof.
  unfold grow. destruct (Nat.ltb i (length l)) eqn:E.
  - apply Nat.ltb_lt in E. lia.
  - apply Nat.ltb_ge in E. rewrite app_length, repeat_length. lia.
Qed.

Lemma nth_error_repeat {A} (d : A) n i : i < n -> nth_error (repeat d n) i = Some d.
Proof.
  revert i; induction n as [|n IH]; intros [|i] H; simpl; try lia; auto. apply IH; lia.
Qed.

Lemma nth_error_grow_old {A} (d : A) l i j :
  j < length l -> nth_error (grow d l i) j = nth_error l j.
Proof.
  intros H. unfold grow. destruct (Nat.ltb i (length l)); auto.
  rewrite nth_error_app1; auto.
Qed.

Lemma nth_error_grow_new {A} (d : A) l i j :
  length l <= j -> j <= i -> nth_error (grow d l i) j = Some d.
Proof.
  intros H1 H2. unfold grow. destruct (Nat.ltb i (length l)) eqn:E.
  - apply Nat.ltb_lt in E. lia.
  - rewrite nth_error_app2; auto. apply nth_error_repeat. lia.
Qed.

Lemma tget_grow (T : table) d i : tget (grow None T d) i = tget T i.
Proof.
  unfold tget. destruct (Nat.lt_ge_cases i (length T)) as [H|H].
  - rewrite nth_error_grow_old; auto.
  - destruct (nth_error T i) eqn:E.
    + apply nth_error_None in H. congruence.
    + destruct (nth_error (grow None T d) i) eqn:E2; auto.
      unfold grow in E2. destruct (Nat.ltb d (length T)).
      * congruence.
      * rewrite nth_error_app2 in E2; auto.
        destruct (Nat.lt_ge_cases (i - length T) (S d - length T)) as [L|L].
        -- rewrite nth_error_repeat in E2; auto. congruence.
        -- assert (N : nth_error (repeat (@None port) (S d - length T)) (i - length T) = None).
           { apply nth_error_None. rewrite repeat_length. lia. }
           congruence.
Qed.

Lemma tget_upd_same (T : table) d v : d < length T -> tget (list_upd T d v) d = v.
Proof. intros H. unfold tget. rewrite nth_error_upd_same; auto. Qed.

Lemma tget_upd_other (T : table) d i v : d <> i -> tget (list_upd T d v) i = tget T i.
Proof. intros H. unfold tget. rewrite nth_error_upd_other; auto. Qed.

Lemma tget_none_ge (T : table) i : length T <= i -> tget T i = None.
Proof. intros H. unfold tget. apply nth_error_None in H. rewrite H. reflexivity. Qed.

(* ---------------------------------------------------------------- one redirection, analysed *)
Lemma exec_redir_ok_inv :
  forall fl objs x r x',
    exec_redir fl objs x r = ROk x' ->
    exists d s1 F2 df p own s2,
      eval_dst r = Some (Z.of_nat d)
      /\ release fl x d = (s1, F2, df)
      /\ eval_src fl objs (grow None (fs_T x) d) s1 r = SPort p own s2
      /\ x' = install (grow None (fs_T x) d) F2 df d p own s2.
Proof.
  intros fl objs x r x' H. unfold exec_redir in H.
  destruct (eval_dst r) as [dz|] eqn:Hd; [|discriminate].
  destruct (dz <? 0)%Z eqn:Hneg; [discriminate|].
  destruct (release fl x (Z.to_nat dz)) as [[s1 F2] df] eqn:E.
  destruct (eval_src fl objs (grow None (fs_T x) (Z.to_nat dz)) s1 r) as [p own s2| |] eqn:Es;
    try discriminate.
  inversion H; subst x'. exists (Z.to_nat dz), s1, F2, df, p, own, s2.
  rewrite Z2Nat.id by lia. auto.
Qed.

Lemma exec_redir_table :
  forall fl objs x r x',
    exec_redir fl objs x r = ROk x' ->
    exists d, eval_dst r = Some (Z.of_nat d)
    /\ length (fs_T x') = Nat.max (length (fs_T x)) (S d)
    /\ (forall i, i <> d -> tget (fs_T x') i = tget (fs_T x) i)
    /\ exists p, tget (fs_T x') d = Some p.
Proof.
  intros fl objs x r x' H.
  destruct (exec_redir_ok_inv _ _ _ _ _ H) as (d & s1 & F2 & df & p & own & s2 & Hd & _ & _ & ->).
  exists d. split; auto. unfold install; simpl. split; [|split].
  - rewrite length_list_upd. apply length_grow_eq.
  - intros i Hi. rewrite tget_upd_other; auto. apply tget_grow.
  - exists p. apply tget_upd_same. apply length_grow.
Qed.

(* n>&m : afterwards both fds hold the very port m held before *)
Lemma dup_shares_port :
  forall objs x md n m x',
    exec_redir Impl objs x (mkRedir (Some (FdNum (Z.of_nat n))) md (SFd (FdNum (Z.of_nat m)))) = ROk x' ->
    exists p, tget (fs_T x) m = Some p /\ tget (fs_T x') n = Some p /\ tget (fs_T x') m = Some p.
Proof.
  intros objs x md n m x' H.
  destruct (exec_redir_ok_inv _ _ _ _ _ H) as (d & s1 & F2 & df & p & own & s2 & Hd & _ & Hs & ->).
  cbn [eval_dst r_dst] in Hd. assert (d = n) by (inversion Hd; lia). subst d.
  unfold eval_src in Hs. cbn [r_src] in Hs.
  assert (Hneg2 : (Z.of_nat m <? 0)%Z = false) by lia. rewrite Hneg2 in Hs.
  rewrite Nat2Z.id, tget_grow in Hs.
  destruct (tget (fs_T x) m) as [q|] eqn:Em; [|discriminate].
  inversion Hs; subst p own s2. exists q. split; auto. unfold install; simpl.
  assert (HL : n < length (grow None (fs_T x) n)) by apply length_grow.
  split.
  - apply tget_upd_same; auto.
  - destruct (Nat.eq_dec n m) as [->|Hne].
    + apply tget_upd_same; auto.
    + rewrite tget_upd_other; auto. rewrite tget_grow. auto.
Qed.

(* n>&- : port n becomes the closed port; value writes to it raise, byte writes fail *)
Lemma close_installs_closed_port :
  forall objs x dst md n x',
    eval_dst (mkRedir dst md SClose) = Some (Z.of_nat n) ->
    exec_redir Impl objs x (mkRedir dst md SClose) = ROk x' ->
    tget (fs_T x') n = Some closed_port.
Proof.
  intros objs x dst md n x' Hd0 H.
  destruct (exec_redir_ok_inv _ _ _ _ _ H) as (d & s1 & F2 & df & p & own & s2 & Hd & _ & Hs & ->).
  rewrite Hd0 in Hd. assert (d = n) by (inversion Hd; lia). subst d.
  unfold eval_src in Hs. cbn [r_src] in Hs. inversion Hs; subst.
  unfold install; simpl. apply tget_upd_same. apply length_grow.
Qed.

Lemma closed_port_writes :
  forall s v b, write_value s (p_chan closed_port) v = Exc EValueOut s
             /\ write_bytes s (p_file closed_port) b = Exc EIO s.
Proof. intros; split; reflexivity. Qed.

(* invalid source fd >= 0 naming an absent port *)
Lemma invalid_src_fd_raises :
  forall fl objs x r d v,
    eval_dst r = Some (Z.of_nat d) ->
    r_src r = SFd (FdNum (Z.of_nat v)) ->
    tget (fs_T x) v = None ->
    exists x', exec_redir fl objs x r = RExc EInvalidFD x'.
Proof.
  intros fl objs x r d v Hd Hs Hn. unfold exec_redir. rewrite Hd.
  assert (Hneg : (Z.of_nat d <? 0)%Z = false) by lia. rewrite Hneg.
  destruct (release fl x (Z.to_nat (Z.of_nat d))) as [[s1 F2] df].
  unfold eval_src. rewrite Hs.
  assert (Hneg2 : (Z.of_nat v <? 0)%Z = false) by lia. rewrite Hneg2.
  rewrite !Nat2Z.id. rewrite tget_grow, Hn. eexists; reflexivity.
Qed.

(* the reference semantics: negative fds (other than -1, which means close) raise as well *)
Lemma spec_negative_fd_raises :
  forall objs x r,
    (exists dz, eval_dst r = Some dz /\ (dz < 0)%Z)
    \/ (exists dz z, eval_dst r = Some dz /\ (0 <= dz)%Z /\ r_src r = SFd (FdNum z) /\ (z < -1)%Z) ->
    exists x', exec_redir Spec objs x r = RExc EInvalidFD x'.
Proof.
  intros objs x r [[dz [Hd Hl]]|[dz [z [Hd [Hge [Hs Hl]]]]]]; unfold exec_redir; rewrite Hd.
  - assert (E : (dz <? 0)%Z = true) by lia. rewrite E. eexists; reflexivity.
  - assert (E : (dz <? 0)%Z = false) by lia. rewrite E.
    destruct (release Spec x (Z.to_nat dz)) as [[s1 F2] df].
    unfold eval_src. rewrite Hs.
    assert (E2 : (z <? 0)%Z = true) by lia. rewrite E2.
    assert (E3 : (z =? -1)%Z = false) by lia. rewrite E3. eexists; reflexivity.
Qed.

Lemma spec_src_never_crashes : forall objs T s r, eval_src Spec objs T s r <> SCrash.
Proof.
  intros objs T s r. unfold eval_src.
  destruct (r_src r) as [pth|f| |k|]; try discriminate.
  - destruct (open_file s pth (makeFlag (r_mode r))) as [[i s2]|]; discriminate.
  - destruct f as [z|n|]; try discriminate.
    + destruct (z <? 0)%Z; [destruct (z =? -1)%Z; discriminate|]. destruct (tget _ _); discriminate.
    + destruct (Z.of_nat n <? 0)%Z; [destruct (Z.of_nat n =? -1)%Z; discriminate|].
      destruct (tget _ _); discriminate.
  - destruct (nth_error objs k) as [[h|rd wr]|]; try discriminate.
    destruct (r_mode r); try discriminate; [destruct rd|destruct wr]; discriminate.
Qed.

Lemma spec_redir_never_crashes : forall objs x r, exec_redir Spec objs x r <> RCrash.
Proof.
  intros objs x r. unfold exec_redir.
  destruct (eval_dst r) as [dz|]; [|discriminate].
  destruct (dz <? 0)%Z; [discriminate|].
  destruct (release Spec x (Z.to_nat dz)) as [[s1 F2] df].
  destruct (eval_src Spec objs _ s1 r) eqn:E; try discriminate.
  exfalso. eapply spec_src_never_crashes; eauto.
Qed.

(* the witnesses of the defects (faithful model) *)
Definition x0 : fstate :=
  mkFs (init_table []) [] (mkSt [] [] [] [[]; []] [[]; []] led0 false) [].

(* the source fd -1 is the same thing as "-": n>&-1 behaves exactly like n>&- *)
Lemma minus_one_src_is_close :
  forall fl objs x dst md,
    exec_redir fl objs x (mkRedir dst md (SFd (FdNum (-1)))) =
    exec_redir fl objs x (mkRedir dst md SClose).
Proof. intros. reflexivity. Qed.

(* every invalid fd raises the invalid-fd exception in the code as it is now:
   a negative destination, a source below -1, a source naming an absent port *)
Lemma invalid_fd_raises :
  forall objs x r,
    (exists dz, eval_dst r = Some dz /\ (dz < 0)%Z)
    \/ (exists dz z, eval_dst r = Some dz /\ (0 <= dz)%Z /\ r_src r = SFd (FdNum z) /\ (z < -1)%Z)
    \/ (exists d v, eval_dst r = Some (Z.of_nat d) /\ r_src r = SFd (FdNum (Z.of_nat v))
                    /\ tget (fs_T x) v = None) ->
    exists x', exec_redir Impl objs x r = RExc EInvalidFD x'.
Proof.
  intros objs x r [[dz [Hd Hl]]|[[dz [z [Hd [Hge [Hs Hl]]]]]|[d [v [Hd [Hs Hn]]]]]].
  - unfold exec_redir. rewrite Hd.
    assert (E : (dz <? 0)%Z = true) by lia. rewrite E. eexists; reflexivity.
  - unfold exec_redir. rewrite Hd.
    assert (E : (dz <? 0)%Z = false) by lia. rewrite E.
    destruct (release Impl x (Z.to_nat dz)) as [[s1 F2] df].
    unfold eval_src. rewrite Hs.
    assert (E2 : (z <? 0)%Z = true) by lia. rewrite E2.
    assert (E3 : (z =? -1)%Z = false) by lia. rewrite E3. eexists; reflexivity.
  - eapply invalid_src_fd_raises; eauto.
Qed.

Lemma impl_src_never_crashes : forall objs T s r, eval_src Impl objs T s r <> SCrash.
Proof.
  intros objs T s r. unfold eval_src.
  destruct (r_src r) as [pth|f| |k|]; try discriminate.
  - destruct (open_file s pth (makeFlag (r_mode r))) as [[i s2]|]; discriminate.
  - destruct f as [z|n|]; try discriminate.
    + destruct (z <? 0)%Z; [destruct (z =? -1)%Z; discriminate|]. destruct (tget _ _); discriminate.
    + destruct (Z.of_nat n <? 0)%Z; [destruct (Z.of_nat n =? -1)%Z; discriminate|].
      destruct (tget _ _); discriminate.
  - destruct (nth_error objs k) as [[h|rd wr]|]; try discriminate.
    destruct (r_mode r); try discriminate; [destruct rd|destruct wr]; discriminate.
Qed.

(* no redirection makes the interpreter panic any more *)
Lemma redir_never_crashes : forall fl objs x r, exec_redir fl objs x r <> RCrash.
Proof.
  intros fl objs x r. unfold exec_redir.
  destruct (eval_dst r) as [dz|]; [|discriminate].
  destruct (dz <? 0)%Z; [discriminate|].
  destruct (release fl x (Z.to_nat dz)) as [[s1 F2] df].
  destruct (eval_src fl objs _ s1 r) eqn:E; try discriminate.
  exfalso. destruct fl; [eapply impl_src_never_crashes|eapply spec_src_never_crashes]; eauto.
Qed.

(* growAccess allocates dst+1 slots whatever dst is *)
Lemma huge_fd_allocates :
  forall objs x r d x',
    eval_dst r = Some (Z.of_nat d) -> exec_redir Impl objs x r = ROk x' ->
    length (fs_T x) <= d -> length (fs_T x') = S d.
Proof.
  intros objs x r d x' Hd H Hl. destruct (exec_redir_table _ _ _ _ _ H) as (d' & Hd' & HL & _).
  rewrite Hd in Hd'. assert (d' = d) by (inversion Hd'; lia). subst. lia.
Qed.

(* ---------------------------------------------------------------- files *)
Lemma fs_get_set_same fs p c : fs_get (fs_set fs p c) p = Some c.
Proof.
  unfold fs_get, fs_set. rewrite nth_error_upd_same; auto. apply length_grow.
Qed.

Lemma fs_get_set_other fs p q c : p <> q -> fs_get (fs_set fs p c) q = fs_get fs q.
Proof.
  intros H. unfold fs_get, fs_set. rewrite nth_error_upd_other; auto.
  destruct (Nat.lt_ge_cases q (length fs)) as [L|L].
  - rewrite nth_error_grow_old; auto.
  - assert (E : nth_error fs q = None) by (apply nth_error_None; auto). rewrite E.
    destruct (nth_error (grow None fs p) q) eqn:E2; auto.
    destruct (Nat.le_gt_cases q p) as [L2|L2].
    + rewrite nth_error_grow_new in E2; auto. congruence.
    + assert (N : nth_error (grow None fs p) q = None).
      { apply nth_error_None. rewrite length_grow_eq. lia. }
      congruence.
Qed.

Lemma write_at_0 old b : write_at old 0 b = b ++ skipn (length b) old.
Proof. unfold write_at. simpl. reflexivity. Qed.

Lemma write_at_end old b : write_at old (length old) b = old ++ b.
Proof.
  unfold write_at. rewrite firstn_all, Nat.sub_diag. simpl.
  rewrite skipn_all2; [rewrite app_nil_r; auto|lia].
Qed.

Definition content (s : st) (p : nat) : bytes :=
  match fs_get (s_fs s) p with Some c => c | None => [] end.

Opaque write_at.
(* > truncates, >> appends, <> overwrites in place from offset 0 without
   truncating, < gives a descriptor that cannot be written *)
Lemma truncate_vs_append_vs_rdwr :
  forall s p m i s1 b,
    open_file s p (makeFlag m) = Some (i, s1) ->
    match m with
    | MRead => write_bytes s1 (Some (HOfd i)) b = Exc EIO s1 /\ content s1 p = content s p
    | MWrite => exists s2, write_bytes s1 (Some (HOfd i)) b = Ok s2 /\ fs_get (s_fs s2) p = Some b
    | MAppend => exists s2, write_bytes s1 (Some (HOfd i)) b = Ok s2
                            /\ fs_get (s_fs s2) p = Some (content s p ++ b)
    | MRdWr => exists s2, write_bytes s1 (Some (HOfd i)) b = Ok s2
                          /\ fs_get (s_fs s2) p = Some (b ++ skipn (length b) (content s p))
    end.
Proof.
  intros s p m i s1 b H. unfold open_file in H.
  destruct m; cbn [makeFlag f_creat f_trunc f_rd f_wr f_app] in H.
  - (* read *)
    destruct (fs_get (s_fs s) p) as [c|] eqn:E; [|discriminate].
    inversion H; subst i s1; clear H. split.
    + unfold write_bytes. cbn [s_ofds set_led set_ofds set_fs].
      rewrite nth_error_app2, Nat.sub_diag by lia. reflexivity.
    + unfold content. cbn [s_fs set_led set_ofds set_fs]. rewrite fs_get_set_same, E. reflexivity.
  - (* write *)
    assert (H' : i = length (s_ofds s) /\
                 s1 = set_led (set_ofds (set_fs s (fs_set (s_fs s) p []))
                          (s_ofds s ++ [mkOfd p 0 false true false true]))
                          (led_fopen (s_led s))).
    { destruct (fs_get (s_fs s) p); inversion H; auto. }
    destruct H' as [-> ->]. clear H.
    unfold write_bytes. cbn [s_ofds s_fs set_led set_ofds set_fs].
    rewrite nth_error_app2, Nat.sub_diag by lia. cbn.
    rewrite fs_get_set_same. eexists; split; [reflexivity|].
    cbn [s_fs set_ofds set_fs]. rewrite fs_get_set_same. change (length (@nil N)) with 0. rewrite write_at_0, skipn_nil, app_nil_r. reflexivity.
  - (* append *)
    assert (H' : i = length (s_ofds s) /\
                 s1 = set_led (set_ofds (set_fs s (fs_set (s_fs s) p (content s p)))
                          (s_ofds s ++ [mkOfd p 0 false true true true]))
                          (led_fopen (s_led s))).
    { unfold content. destruct (fs_get (s_fs s) p); inversion H; auto. }
    destruct H' as [-> ->]. clear H.
    unfold write_bytes. cbn [s_ofds s_fs set_led set_ofds set_fs].
    rewrite nth_error_app2, Nat.sub_diag by lia. cbn.
    rewrite fs_get_set_same. eexists; split; [reflexivity|].
    cbn [s_fs set_ofds set_fs]. rewrite fs_get_set_same. rewrite write_at_end. reflexivity.
  - (* read-write *)
    assert (H' : i = length (s_ofds s) /\
                 s1 = set_led (set_ofds (set_fs s (fs_set (s_fs s) p (content s p)))
                          (s_ofds s ++ [mkOfd p 0 true true false true]))
                          (led_fopen (s_led s))).
    { unfold content. destruct (fs_get (s_fs s) p); inversion H; auto. }
    destruct H' as [-> ->]. clear H.
    unfold write_bytes. cbn [s_ofds s_fs set_led set_ofds set_fs].
    rewrite nth_error_app2, Nat.sub_diag by lia. cbn.
    rewrite fs_get_set_same. eexists; split; [reflexivity|].
    cbn [s_fs set_ofds set_fs]. rewrite fs_get_set_same. rewrite write_at_0. reflexivity.
Qed.
Transparent write_at.

Lemma close_handle_len s h :
  length (s_ofds (close_handle s h)) = length (s_ofds s).
Proof.
  destruct h as [i|k| |j|j]; simpl; auto.
  - destruct (nth_error (s_ofds s) i) as [o|]; auto. destruct (o_open o); auto.
    simpl. apply length_list_upd.
  - destruct (nth_error (s_pipes s) j) as [p|]; auto. destruct (pi_r p); auto.
  - destruct (nth_error (s_pipes s) j) as [p|]; auto. destruct (pi_w p); auto.
Qed.

Lemma close_fop_len s f p : length (s_ofds (close_fop s f p)) = length (s_ofds s).
Proof.
  unfold close_fop. destruct (fo_file f); auto. destruct (p_file p); auto. apply close_handle_len.
Qed.


(* ---------------------------------------------------------------- left-to-right composition *)
Lemma exec_redirs_app fl objs rs1 : forall x rs2,
  exec_redirs fl objs x (rs1 ++ rs2) =
  match exec_redirs fl objs x rs1 with
  | ROk x1 => exec_redirs fl objs x1 rs2
  | e => e
  end.
Proof.
  induction rs1 as [|r rs1 IH]; intros x rs2; simpl; auto.
  destruct (exec_redir fl objs x r); auto.
Qed.

Lemma open_file_index s pth fl i s2 : open_file s pth fl = Some (i, s2) -> i = length (s_ofds s).
Proof.
  unfold open_file. intros H.
  destruct (fs_get (s_fs s) pth); [|destruct (f_creat fl); [|discriminate]]; inversion H; auto.
Qed.

Lemma release_len x d s1 F2 df :
  release Impl x d = (s1, F2, df) -> length (s_ofds s1) = length (s_ofds (fs_st x)).
Proof.
  unfold release. intros H. destruct (tget (grow None (fs_T x) d) d); inversion H; auto.
  apply close_fop_len.
Qed.

(* what the source of a redirection designates, read in the table and state
   left by the redirections before it *)
Definition designates (objs : list obj) (x1 : fstate) (r : redir) (p : port) : Prop :=
  match r_src r with
  | SFile _ => p = fileRedirPort (r_mode r) (HOfd (length (s_ofds (fs_st x1))))  (* a fresh open file *)
  | SFd (FdNum z) => ((0 <= z)%Z /\ tget (fs_T x1) (Z.to_nat z) = Some p) \/ (z = (-1)%Z /\ p = closed_port)
  | SFd (FdName n) => tget (fs_T x1) n = Some p
  | SFd FdBad => False
  | SClose => p = closed_port
  | SObj k =>
    match nth_error objs k with
    | Some (OFile h) => p = fileRedirPort (r_mode r) h
    | Some (OMap rd wr) =>
      match r_mode r with
      | MRead => exists h, rd = Some h /\ p = fileRedirPort MRead h
      | MWrite => exists h, wr = Some h /\ p = fileRedirPort MWrite h
      | _ => False
      end
    | None => False
    end
  | SBad => False
  end.

(* Executing rs1 ++ [r] is executing rs1 and then r; r reroutes exactly its
   destination fd, to what its source designates in the table left by rs1, and
   leaves every other fd as rs1 left it. *)
Lemma redir_routes :
  forall objs rs1 r x x1 x2,
    exec_redirs Impl objs x rs1 = ROk x1 ->
    exec_redir Impl objs x1 r = ROk x2 ->
    exec_redirs Impl objs x (rs1 ++ [r]) = ROk x2
    /\ exists d p, eval_dst r = Some (Z.of_nat d)
                   /\ tget (fs_T x2) d = Some p
                   /\ designates objs x1 r p
                   /\ forall i, i <> d -> tget (fs_T x2) i = tget (fs_T x1) i.
Proof.
  intros objs rs1 r x x1 x2 H1 H2. split.
  - rewrite exec_redirs_app, H1. simpl. rewrite H2. reflexivity.
  - destruct (exec_redir_ok_inv _ _ _ _ _ H2) as (d & s1 & F2 & df & p & own & s2 & Hd & Hr & Hs & ->).
    exists d, p. split; auto. unfold install; simpl.
    assert (HL : d < length (grow None (fs_T x1) d)) by apply length_grow.
    split; [apply tget_upd_same; auto|]. split.
    + unfold designates. unfold eval_src in Hs. destruct (r_src r) as [pth|f| |k|].
      * destruct (open_file s1 pth (makeFlag (r_mode r))) as [[i s']|] eqn:E; [|discriminate].
        inversion Hs; subst. apply open_file_index in E. rewrite E, (release_len _ _ _ _ _ Hr). reflexivity.
      * destruct f as [z|n|]; try discriminate.
        -- destruct (z <? 0)%Z eqn:Ez.
           ++ destruct (z =? -1)%Z eqn:E1; [|discriminate]. inversion Hs; subst. right. split; auto. lia.
           ++ rewrite tget_grow in Hs. destruct (tget (fs_T x1) (Z.to_nat z)) eqn:Et; [|discriminate].
              inversion Hs; subst. left. split; auto. lia.
        -- assert (Ez : (Z.of_nat n <? 0)%Z = false) by lia. rewrite Ez in Hs.
           rewrite Nat2Z.id, tget_grow in Hs. destruct (tget (fs_T x1) n) eqn:Et; [|discriminate].
           inversion Hs; subst. reflexivity.
      * inversion Hs; auto.
      * destruct (nth_error objs k) as [[h|rd wr]|]; try discriminate.
        -- inversion Hs; auto.
        -- destruct (r_mode r); try discriminate.
           ++ destruct rd as [h|]; [|discriminate]. inversion Hs; subst. exists h; auto.
           ++ destruct wr as [h|]; [|discriminate]. inversion Hs; subst. exists h; auto.
      * discriminate.
    + intros i Hi. rewrite tget_upd_other; auto. apply tget_grow.
Qed.

(* ---------------------------------------------------------------- witnesses of the remaining defects *)
Definition prog_early_close : prog :=
  PForm (Form (CBlock [Form (CEcho [111%N]) [];
                       Form (CEcho [101%N]) [mkRedir None MWrite (SFd (FdNum 2))]])
              [mkRedir None MWrite (SFile 0); mkRedir (Some (FdNum 2)) MWrite (SFd (FdNum 1));
               mkRedir None MWrite (SFile 1)]).

Lemma routed_file_closed_early :
  exists o, observe Impl [None; None] [] [] prog_early_close = Some o
    /\ ob_exc o = Some EIO
    /\ check_C42 [None; None] [] [] prog_early_close o = false.
Proof. eexists. split; [vm_compute; reflexivity|]. split; vm_compute; reflexivity. Qed.

Lemma pipe_reader_stdin_redirect_crashes :
  observe Impl [Some []] [] []
    (PPipe (Form (CEcho [119%N]) []) (Form CSlurp [mkRedir None MRead (SFile 0)]))
  = Some (mkObs true None [] [] [] [] 0%Z).
Proof. vm_compute. reflexivity. Qed.

(* ---------------------------------------------------------------- the oracle *)
(* The property on observables, as a proposition: whenever the reference
   semantics specifies the program, the observation shows no crash, an
   exception exactly when the reference raises one, the same file contents,
   per-port byte and value outputs and pipe contents, and no descriptor left. *)
Definition Spec_C42 (fs0 : list (option bytes)) (env : list ospec) (extra : list (option nat))
    (p : prog) (o : obs) : Prop :=
  forall e, observe Spec fs0 env extra p = Some e ->
    ob_crash o = false
    /\ (ob_exc o = None <-> ob_exc e = None)
    /\ fs_eqb (ob_fs o) (ob_fs e) = true
    /\ ob_bs o = ob_bs e /\ ob_vs o = ob_vs e /\ ob_pipes o = ob_pipes e
    /\ ob_fd_delta o = 0%Z.

Lemma check_C42_sound :
  forall fs0 env extra p o, check_C42 fs0 env extra p o = true -> Spec_C42 fs0 env extra p o.
Proof.
  intros fs0 env extra p o H e He. unfold check_C42 in H. rewrite He in H.
  repeat (apply andb_true_iff in H; destruct H as [H ?]).
  repeat split.
  - destruct (ob_crash o); simpl in *; congruence.
  - intros E. rewrite E in *. destruct (ob_exc e); simpl in *; congruence.
  - intros E. rewrite E in *. destruct (ob_exc o); simpl in *; congruence.
  - assumption.
  - apply (list_eqb_spec bytes_eqb bytes_eqb_spec); assumption.
  - apply (list_eqb_spec _ (list_eqb_spec bytes_eqb bytes_eqb_spec)); assumption.
  - apply (list_eqb_spec bytes_eqb bytes_eqb_spec); assumption.
  - apply Z.eqb_eq; assumption.
Qed.
