(* C22 -- the property at the level of (chronological) event traces, soundness
   of the boolean oracle for it, the same-namespace argument, and the theorems
   about the model for all environments and action sequences. *)
From verif Require Import lib.Base model.C22 proofs.C22_proofs proofs.C22_inv.
Open Scope N_scope.

(* ------------------------------------------------------------------ *)
(* the property, on a trace given oldest first *)

(* evaluated at most once unless failed: between two starts of the body of one
   module, the earlier evaluation has failed *)
Definition Once (tr : list event) : Prop :=
  forall pre m n' mid n post,
    tr = pre ++ EStart m n' :: mid ++ EStart m n :: post -> In (EFailed m n') mid.

(* failed modules are not cached: once an evaluation has failed, no import
   returns its namespace *)
Definition NoStale (tr : list event) : Prop :=
  forall pre a imp spec m n post,
    tr = pre ++ ESeen a imp spec m n :: post -> ~ In (EFailed m n) pre.

(* the importer still holds what it imported *)
Definition ImpLive (tr : list event) (imp : importer) : Prop :=
  match imp with IScript => True | IMod m n => In (EEnd m n) tr end.

(* all importers see the same namespace *)
Definition SameNs (tr : list event) : Prop :=
  forall a1 i1 sp1 a2 i2 sp2 m n1 n2,
    In (ESeen a1 i1 sp1 m n1) tr -> In (ESeen a2 i2 sp2 m n2) tr ->
    ImpLive tr i1 -> ImpLive tr i2 -> n1 = n2.

(* the same for all importers, surviving or not *)
Definition SameNsAll (tr : list event) : Prop :=
  forall a1 i1 sp1 a2 i2 sp2 m n1 n2,
    In (ESeen a1 i1 sp1 m n1) tr -> In (ESeen a2 i2 sp2 m n2) tr -> n1 = n2.

(* relative imports resolve against the importing file (directory of the
   module's file, or of the script file), or the working directory for code
   that is not from a file *)
Definition RelOk (E : env) (acts : list action) (tr : list event) : Prop :=
  forall a imp spec tm tn, In (ESeen a imp spec tm tn) tr -> is_rel spec = true ->
    exists d b, imp_dir E acts a imp = Some d
                /\ lookup (clean_abs (d ++ SL :: spec)) (fs E) = Some b /\ b_id b = tm.

Definition Spec_C22 (E : env) (acts : list action) (tr : list event) : Prop :=
  Once tr /\ NoStale tr /\ SameNs tr /\ RelOk E acts tr.

(* whatever is handed to an importer was started before (a fact about the
   model, not part of the property) *)
Definition SeenStarted (tr : list event) : Prop :=
  forall pre a imp spec m n post,
    tr = pre ++ ESeen a imp spec m n :: post -> In (EStart m n) pre.

(* no evaluation that fails is imported while it is in progress, i.e. no
   failing module lies on an import cycle that is exercised *)
Definition NoFailingCycleMember (tr : list event) : Prop :=
  forall pre m n mid post,
    tr = pre ++ EStart m n :: mid ++ EFailed m n :: post ->
    forall a i sp, ~ In (ESeen a i sp m n) mid.

(* ------------------------------------------------------------------ *)
(* soundness of the oracle *)
Lemma existsb_false_In {A} (f : A -> bool) l x : existsb f l = false -> In x l -> f x = false.
Proof.
  intros H Hin. destruct (f x) eqn:Hf; [|reflexivity].
  assert (existsb f l = true) by (apply existsb_exists; exists x; auto). congruence.
Qed.

Lemma once_ok_at r1 : forall r2 m n,
  once_ok (r1 ++ EStart m n :: r2) = true ->
  existsb (fun p => fst p =? m) (live r2) = false.
Proof.
  induction r1 as [|e r1 IH]; intros r2 m n H; simpl in H.
  - apply andb_true_iff in H as [H _]. destruct (existsb _ _); [discriminate|reflexivity].
  - destruct e; try (apply (IH _ _ _ H)).
    apply andb_true_iff in H as [_ H]. apply (IH _ _ _ H).
Qed.

Lemma live_app_start r1 : forall r2 m n,
  In (m, n) (live (r1 ++ EStart m n :: r2)) \/ In (EFailed m n) r1.
Proof.
  induction r1 as [|e r1 IH]; intros r2 m n; simpl.
  - left. left. reflexivity.
  - destruct (IH r2 m n) as [Hin|Hf]; [|right; right; exact Hf].
    destruct e as [a b|a b|a b|? ? ? ? ?|a b|a b]; try (left; exact Hin).
    + left. right. exact Hin.
    + destruct (pair_eqb (a, b) (m, n)) eqn:Hp.
      * apply pair_eqb_eq in Hp. inversion Hp; subst. right. left. reflexivity.
      * left. apply filter_In. split; [exact Hin|]. rewrite Hp. reflexivity.
Qed.

Lemma once_sound tr : once_ok (rev tr) = true -> Once tr.
Proof.
  intros H pre m n' mid n post Htr.
  assert (Hr : rev tr = rev post ++ EStart m n :: (rev mid ++ EStart m n' :: rev pre)).
  { subst tr. rewrite rev_app_distr. simpl. rewrite rev_app_distr. simpl.
    rewrite <- !app_assoc. simpl. reflexivity. }
  rewrite Hr in H. apply once_ok_at in H.
  destruct (live_app_start (rev mid) (rev pre) m n') as [Hin|Hf].
  - pose proof (existsb_false_In _ _ _ H Hin) as Hx. simpl in Hx.
    rewrite N.eqb_refl in Hx. discriminate.
  - apply in_rev. exact Hf.
Qed.

Lemma failed_In m n r : In (EFailed m n) r <-> In (m, n) (failed r).
Proof.
  induction r as [|e r IH]; simpl; [tauto|].
  destruct e; simpl; rewrite <- IH; intuition (try discriminate; try congruence).
Qed.

Lemma nostale_ok_at r1 : forall r2 a i sp m n,
  nostale_ok (r1 ++ ESeen a i sp m n :: r2) = true -> mem_pair (m, n) (failed r2) = false.
Proof.
  induction r1 as [|e r1 IH]; intros r2 a i sp m n H; simpl in H.
  - apply andb_true_iff in H as [H _]. destruct (mem_pair _ _); [discriminate|reflexivity].
  - destruct e; try (apply (IH _ _ _ _ _ _ H)).
    apply andb_true_iff in H as [_ H]. apply (IH _ _ _ _ _ _ H).
Qed.

Lemma nostale_sound tr : nostale_ok (rev tr) = true -> NoStale tr.
Proof.
  intros H pre a imp spec m n post Htr Hin.
  assert (Hr : rev tr = rev post ++ ESeen a imp spec m n :: rev pre).
  { subst tr. rewrite rev_app_distr. simpl. rewrite <- app_assoc. reflexivity. }
  rewrite Hr in H. apply nostale_ok_at in H.
  assert (Hm : mem_pair (m, n) (failed (rev pre)) = true).
  { apply mem_pair_In. apply failed_In. apply in_rev in Hin. exact Hin. }
  congruence.
Qed.

Lemma started_ok_at r1 : forall r2 a i sp m n,
  started_ok (r1 ++ ESeen a i sp m n :: r2) = true -> existsb (is_start m n) r2 = true.
Proof.
  induction r1 as [|e r1 IH]; intros r2 a i sp m n H; simpl in H.
  - apply andb_true_iff in H as [H _]. exact H.
  - destruct e; try (apply (IH _ _ _ _ _ _ H)).
    apply andb_true_iff in H as [_ H]. apply (IH _ _ _ _ _ _ H).
Qed.

Lemma started_sound tr : started_ok (rev tr) = true -> SeenStarted tr.
Proof.
  intros H pre a imp spec m n post Htr.
  assert (Hr : rev tr = rev post ++ ESeen a imp spec m n :: rev pre).
  { subst tr. rewrite rev_app_distr. simpl. rewrite <- app_assoc. reflexivity. }
  rewrite Hr in H. apply started_ok_at in H. apply is_start_In in H.
  apply in_rev. exact H.
Qed.

Lemma imp_live_In r imp : ImpLive r imp -> imp_live r imp = true.
Proof.
  destruct imp as [|m n]; simpl; [reflexivity|]. intros H.
  apply existsb_exists. exists (EEnd m n). split; [exact H|]. simpl.
  rewrite !N.eqb_refl. reflexivity.
Qed.

Lemma seen_live_In r a i sp m n :
  In (ESeen a i sp m n) r -> imp_live r i = true -> In (m, n) (seen_live r).
Proof.
  intros Hin Hl. unfold seen_live. apply in_flat_map. exists (ESeen a i sp m n).
  split; [exact Hin|]. rewrite Hl. left. reflexivity.
Qed.

Lemma ImpLive_rev tr imp : ImpLive tr imp -> ImpLive (rev tr) imp.
Proof. destruct imp; simpl; [auto|]. intros H. apply in_rev in H. exact H. Qed.

Lemma samens_sound tr : samens_ok (rev tr) = true -> SameNs tr.
Proof.
  unfold samens_ok. intros H a1 i1 sp1 a2 i2 sp2 m n1 n2 H1 H2 L1 L2.
  rewrite forallb_forall in H.
  apply in_rev in H1, H2. apply ImpLive_rev in L1, L2.
  pose proof (seen_live_In _ _ _ _ _ _ H1 (imp_live_In _ _ L1)) as S1.
  pose proof (seen_live_In _ _ _ _ _ _ H2 (imp_live_In _ _ L2)) as S2.
  specialize (H _ S1). rewrite forallb_forall in H. specialize (H _ S2). simpl in H.
  rewrite N.eqb_refl in H. simpl in H. apply N.eqb_eq in H. exact H.
Qed.

Lemma rel_sound E acts tr : rel_ok E acts (rev tr) = true -> RelOk E acts tr.
Proof.
  unfold rel_ok. intros H a imp spec tm tn Hin Hrel. rewrite forallb_forall in H.
  apply in_rev in Hin. specialize (H _ Hin). unfold rel_ev_ok in H. rewrite Hrel in H.
  destruct (imp_dir E acts a imp) as [d|]; [|discriminate].
  destruct (lookup (clean_abs (d ++ SL :: spec)) (fs E)) as [b|] eqn:Hl; [|discriminate].
  exists d, b. split; [reflexivity|]. split; [exact Hl|]. apply N.eqb_eq. exact H.
Qed.

Theorem check_C22_sound E acts tr : check_C22 E acts tr = true -> Spec_C22 E acts tr.
Proof.
  unfold check_C22. intros H.
  apply andb_true_iff in H as [H H4]. apply andb_true_iff in H as [H H3].
  apply andb_true_iff in H as [H1 H2].
  split; [apply once_sound; exact H1|]. split; [apply nostale_sound; exact H2|].
  split; [apply samens_sound; exact H3|apply rel_sound; exact H4].
Qed.

(* ------------------------------------------------------------------ *)
(* same namespace, from the other trace properties *)
Lemma in_two_order {A} (x y : A) l : In x l -> In y l -> x <> y ->
  (exists p m q, l = p ++ x :: m ++ y :: q) \/ (exists p m q, l = p ++ y :: m ++ x :: q).
Proof.
  intros Hx Hy Hne. apply in_split in Hx as [l1 [l2 ->]].
  apply in_app_or in Hy as [Hy|[Hy|Hy]].
  - right. apply in_split in Hy as [p [m ->]]. exists p, m, l2.
    rewrite <- app_assoc. reflexivity.
  - contradiction.
  - left. apply in_split in Hy as [m [q ->]]. exists l1, m, q. reflexivity.
Qed.

Lemma seen_not_failed tr a i sp m n :
  NoStale tr -> SeenStarted tr -> NoFailingCycleMember tr ->
  In (ESeen a i sp m n) tr -> In (EFailed m n) tr -> False.
Proof.
  intros Hns Hst Hcy Hs Hf.
  destruct (in_two_order _ _ _ Hs Hf) as [[p [md [q Heq]]]|[p [md [q Heq]]]]; [discriminate| |].
  - (* seen before the failure: it was in progress *)
    pose proof (Hst _ _ _ _ _ _ _ Heq) as Hstart.
    apply in_split in Hstart as [p1 [p2 ->]].
    refine (Hcy p1 m n (p2 ++ ESeen a i sp m n :: md) q _ a i sp _).
    + rewrite Heq. rewrite <- !app_assoc. simpl. reflexivity.
    + apply in_or_app. right. left. reflexivity.
  - (* seen after the failure *)
    apply (Hns (p ++ EFailed m n :: md) a i sp m n q).
    + rewrite Heq. rewrite <- app_assoc. reflexivity.
    + apply in_or_app. right. left. reflexivity.
Qed.

Lemma seen_started_in tr a i sp m n :
  SeenStarted tr -> In (ESeen a i sp m n) tr -> In (EStart m n) tr.
Proof.
  intros Hst Hs. apply in_split in Hs as [p [q Heq]].
  pose proof (Hst _ _ _ _ _ _ _ Heq) as H. rewrite Heq. apply in_or_app. left. exact H.
Qed.

Theorem same_ns_from_trace tr :
  Once tr -> NoStale tr -> SeenStarted tr -> NoFailingCycleMember tr -> SameNsAll tr.
Proof.
  intros Ho Hns Hst Hcy a1 i1 sp1 a2 i2 sp2 m n1 n2 H1 H2.
  destruct (N.eq_dec n1 n2) as [|Hne]; [assumption|exfalso].
  pose proof (seen_started_in _ _ _ _ _ _ Hst H1) as S1.
  pose proof (seen_started_in _ _ _ _ _ _ Hst H2) as S2.
  assert (Hd : EStart m n1 <> EStart m n2) by (intros Heq; inversion Heq; contradiction).
  destruct (in_two_order _ _ _ S1 S2 Hd) as [[p [md [q Heq]]]|[p [md [q Heq]]]].
  - pose proof (Ho _ _ _ _ _ _ Heq) as Hf.
    apply (seen_not_failed tr a1 i1 sp1 m n1 Hns Hst Hcy H1).
    rewrite Heq. apply in_or_app. right. right. apply in_or_app. left. exact Hf.
  - pose proof (Ho _ _ _ _ _ _ Heq) as Hf.
    apply (seen_not_failed tr a2 i2 sp2 m n2 Hns Hst Hcy H2).
    rewrite Heq. apply in_or_app. right. right. apply in_or_app. left. exact Hf.
Qed.

Lemma SameNsAll_SameNs tr : SameNsAll tr -> SameNs tr.
Proof. intros H a1 i1 sp1 a2 i2 sp2 m n1 n2 H1 H2 _ _. eapply H; eassumption. Qed.

(* ------------------------------------------------------------------ *)
(* the model satisfies the property: all environments, all action sequences *)
Lemma trace_rev E acts : rev (trace_of E acts) = rtrace (run E acts).
Proof. unfold trace_of. apply rev_involutive. Qed.

Theorem evaluated_at_most_once_unless_failed E acts :
  wf_env E -> Once (trace_of E acts).
Proof.
  intros Hwf. apply once_sound. rewrite trace_rev. apply (i_once _ _ _ (run_inv E acts Hwf)).
Qed.

Theorem failed_not_cached_trace E acts : wf_env E -> NoStale (trace_of E acts).
Proof.
  intros Hwf. apply nostale_sound. rewrite trace_rev. apply (i_stale _ _ _ (run_inv E acts Hwf)).
Qed.

Theorem relative_resolves_against_importer E acts :
  wf_env E -> RelOk E acts (trace_of E acts).
Proof.
  intros Hwf. apply rel_sound. rewrite trace_rev. apply (i_rel _ _ _ (run_inv E acts Hwf)).
Qed.

Lemma model_seen_started E acts : wf_env E -> SeenStarted (trace_of E acts).
Proof.
  intros Hwf. apply started_sound. rewrite trace_rev. apply (i_started _ _ _ (run_inv E acts Hwf)).
Qed.

Theorem same_namespace_partial E acts :
  wf_env E -> NoFailingCycleMember (trace_of E acts) -> SameNs (trace_of E acts).
Proof.
  intros Hwf Hcy. apply SameNsAll_SameNs. apply same_ns_from_trace.
  - apply evaluated_at_most_once_unless_failed; exact Hwf.
  - apply failed_not_cached_trace; exact Hwf.
  - apply model_seen_started; exact Hwf.
  - exact Hcy.
Qed.

(* no failure at all: the simplest sufficient condition *)
Theorem same_namespace_no_failures E acts :
  wf_env E -> (forall m n, ~ In (EFailed m n) (trace_of E acts)) -> SameNs (trace_of E acts).
Proof.
  intros Hwf Hnf. apply same_namespace_partial; [exact Hwf|].
  intros pre m n mid post Heq. exfalso. apply (Hnf m n). rewrite Heq.
  apply in_or_app. right. right. apply in_or_app. right. left. reflexivity.
Qed.

Theorem model_satisfies_spec_partial E acts :
  wf_env E -> NoFailingCycleMember (trace_of E acts) -> Spec_C22 E acts (trace_of E acts).
Proof.
  intros Hwf Hcy. split; [apply evaluated_at_most_once_unless_failed; exact Hwf|].
  split; [apply failed_not_cached_trace; exact Hwf|].
  split; [apply same_namespace_partial; assumption|apply relative_resolves_against_importer; exact Hwf].
Qed.

(* ------------------------------------------------------------------ *)
(* statements about single steps of the model *)

(* a failing evaluation leaves its key uncached *)
Theorem failed_not_cached_step cx u key org b s s' k :
  eval_module cx u key org b s = (s', Err k) -> lookup key (cache s') = None.
Proof.
  unfold eval_module.
  destruct (exec_stmts cx u (b_id b) (next s) org (b_stmts b) _) as [s1 [x|kd|]];
    intros H; inversion H; subst. cbn [cache]. apply lookup_delete_same.
Qed.

(* and the next import of that key evaluates the body again *)
Theorem uncached_is_evaluated E cx u path b s :
  lookup path (cache s) = None -> lookup path (fs E) = Some b ->
  use_file E cx u path s = Some (eval_module cx u path (Some (dir_of path)) b s).
Proof. intros H1 H2. unfold use_file. rewrite H1, H2. reflexivity. Qed.

(* a cached key is returned as it is, without evaluation and without events *)
Theorem cached_is_shared E cx u path s v :
  lookup path (cache s) = Some v -> use_file E cx u path s = Some (s, Ok v).
Proof. intros H. unfold use_file. rewrite H. reflexivity. Qed.

(* a relative spec in code from a file in directory d is looked up at
   Clean(d/spec), whatever the working directory; code not from a file uses
   the working directory *)
Theorem relative_step E cx f org spec s :
  is_rel spec = true ->
  use E cx (S f) org spec s =
  match use_file E cx (use E cx f)
          (clean_abs ((match org with Some d => d | None => cx_cwd cx end) ++ SL :: spec)) s with
  | Some x => x
  | None => (s, Err K_NOMOD)
  end.
Proof. intros H. simpl. unfold use_step. rewrite H. reflexivity. Qed.

Theorem use_preserves_cache E cx fuel org spec s k v :
  lookup k (cache s) = Some v ->
  lookup k (cache (fst (use E cx fuel org spec s))) = Some v.
Proof. intros H. exact (proj1 (use_frame E cx fuel org spec s) k v H). Qed.

(* ------------------------------------------------------------------ *)
(* the full same-namespace statement is false of the faithful model *)
Definition w_w : bytes := [47; 119].                       (* /w *)
Definition w_ma : bytes := [47; 119; 47; 109; 97].         (* /w/ma *)
Definition w_mb : bytes := [47; 119; 47; 109; 98].         (* /w/mb *)
Definition s_ma : bytes := [46; 47; 109; 97].              (* ./ma *)
Definition s_mb : bytes := [46; 47; 109; 98].              (* ./mb *)

(* ma: use ./mb; fail if flag 0.   mb: use ./ma *)
Definition w_env : env :=
  mkEnv [(w_ma, mkBody 0 [SUse s_mb; SFailIf 0]); (w_mb, mkBody 1 [SUse s_ma])] [] [].

Definition w_acts : list action :=
  [ASetFlag 0 true; AUse w_w OCwd s_ma; ASetFlag 0 false; AUse w_w OCwd s_mb; AUse w_w OCwd s_ma].

Lemma w_trace : trace_of w_env w_acts =
  [EStart 0 0; EStart 1 1; ESeen 1 (IMod 1 1) s_ma 0 0; EEnd 1 1;
   ESeen 1 (IMod 0 0) s_mb 1 1; EFailed 0 0; EResult 1 1;
   ESeen 3 IScript s_mb 1 1; EResult 3 0;
   EStart 0 2; ESeen 4 (IMod 0 2) s_mb 1 1; EEnd 0 2; ESeen 4 IScript s_ma 0 2; EResult 4 0].
Proof. vm_compute. reflexivity. Qed.

Theorem same_namespace_refuted :
  exists E acts, wf_env E /\ ~ SameNs (trace_of E acts).
Proof.
  exists w_env, w_acts. split; [vm_compute; reflexivity|].
  intros H. rewrite w_trace in H.
  assert (Hc : 0 = 2).
  { apply (H 1 (IMod 1 1) s_ma 4 IScript s_ma 0 0 2); simpl; auto 20. }
  discriminate.
Qed.

(* the witness is in the class excluded by the partial theorem *)
Lemma w_fails_on_cycle : ~ NoFailingCycleMember (trace_of w_env w_acts).
Proof.
  intros H. rewrite w_trace in H.
  apply (H [] 0 0 [EStart 1 1; ESeen 1 (IMod 1 1) s_ma 0 0; EEnd 1 1; ESeen 1 (IMod 0 0) s_mb 1 1]
           [EResult 1 1; ESeen 3 IScript s_mb 1 1; EResult 3 0;
            EStart 0 2; ESeen 4 (IMod 0 2) s_mb 1 1; EEnd 0 2; ESeen 4 IScript s_ma 0 2; EResult 4 0]
           eq_refl 1 (IMod 1 1) s_ma).
  simpl. auto.
Qed.
