(* C35: the full code-span rule for findBacktickRun: the closer found is the
   FIRST maximal backtick run of exactly the opener's length. *)
From Coq Require Import Arith.
From verif Require Import lib.Base lib.ListX model.C35_Bal model.C35_Inline.
Open Scope nat_scope.

Definition bt_at (s : bytes) (p : nat) : bool := nth_is p s BT.
Definition runlen (s : bytes) (p : nat) : nat := span is_bt (skipn p s).

(* a maximal run of exactly k backticks starts at p *)
Definition is_run (s : bytes) (k p : nat) : Prop :=
  runlen s p = k /\ (p = 0 \/ bt_at s (p - 1) = false).

Lemma skipn_cons_nth : forall (s : bytes) p c, nth_error s p = Some c ->
  skipn p s = c :: skipn (S p) s.
Proof.
  induction s as [|x s IH]; intros p c H; [destruct p; discriminate|].
  destruct p; simpl in *; [inversion H; reflexivity|]. apply IH. exact H.
Qed.

Lemma runlen_step s p : bt_at s p = true -> runlen s p = S (runlen s (S p)).
Proof.
  unfold bt_at, nth_is, runlen. destruct (nth_error s p) as [c|] eqn:E; [|discriminate].
  intros H. rewrite (skipn_cons_nth s p c E). simpl. unfold is_bt at 1. rewrite H. reflexivity.
Qed.

Lemma runlen_zero s p : bt_at s p = false -> runlen s p = 0.
Proof.
  unfold bt_at, nth_is, runlen. destruct (nth_error s p) as [c|] eqn:E.
  - intros H. rewrite (skipn_cons_nth s p c E). simpl. unfold is_bt at 1. rewrite H. reflexivity.
  - intros _. apply nth_error_None in E. rewrite skipn_all2 by exact E. reflexivity.
Qed.

Lemma runlen_pos_bt s p : 0 < runlen s p -> bt_at s p = true.
Proof. destruct (bt_at s p) eqn:E; [reflexivity|]. rewrite runlen_zero by exact E. lia. Qed.

(* inside a run: every position is a backtick, and the run shrinks by one per step *)
Lemma runlen_inside : forall d s p, d <= runlen s p -> runlen s (p + d) = runlen s p - d.
Proof.
  induction d as [|d IH]; intros s p H; [rewrite Nat.add_0_r; lia|].
  assert (B : bt_at s p = true) by (apply runlen_pos_bt; lia).
  pose proof (runlen_step s p B) as R.
  replace (p + S d) with (S p + d) by lia. rewrite IH by lia. lia.
Qed.

Lemma run_end_not_bt s p : bt_at s (p + runlen s p) = false.
Proof.
  destruct (bt_at s (p + runlen s p)) eqn:E; [|reflexivity].
  pose proof (runlen_inside (runlen s p) s p (le_n _)) as R.
  pose proof (runlen_step s _ E). lia.
Qed.

(* index_run finds the first position at or after i with at least k backticks *)
Lemma index_run_first : forall fuel s k i j,
  index_run fuel s k i = Some j ->
  i <= j /\ k <= runlen s j /\ forall p, i <= p < j -> runlen s p < k.
Proof.
  induction fuel as [|f IH]; intros s k i j H; [discriminate|]. cbn [index_run] in H.
  destruct (Nat.ltb (length s) (i + k)); [discriminate|].
  destruct (Nat.leb k (span is_bt (skipn i s))) eqn:E.
  - inversion H; subst. apply Nat.leb_le in E. repeat split; [lia|exact E|intros p Hp; lia].
  - apply Nat.leb_gt in E. destruct (IH _ _ _ _ H) as (A & B & C). repeat split; [lia|exact B|].
    intros p Hp. destruct (Nat.eq_dec p i) as [->|Hn]; [exact E|apply C; lia].
Qed.

Theorem find_backtick_run_first : forall fuel s k i j,
  1 <= k -> bt_at s i = false ->
  find_backtick_run fuel s k i = Some j ->
  i <= j /\ is_run s k j /\ forall p, i <= p < j -> ~ is_run s k p.
Proof.
  induction fuel as [|f IH]; intros s k i j Hk Hi H; [discriminate|]. cbn [find_backtick_run] in H.
  destruct (Nat.leb (length s) i); [discriminate|].
  destruct (index_run (S (length s)) s k i) as [j0|] eqn:E; [|discriminate].
  destruct (index_run_first _ _ _ _ _ E) as (A & B & C).
  fold (runlen s j0) in H.
  (* j0 is the start of a maximal run: the position before it is no backtick *)
  assert (L : j0 = 0 \/ bt_at s (j0 - 1) = false).
  { destruct (Nat.eq_dec j0 i) as [->|Hn].
    - exfalso. assert (bt_at s i = true) by (apply runlen_pos_bt; lia). congruence.
    - right. destruct (bt_at s (j0 - 1)) eqn:Q; [|reflexivity]. exfalso.
      pose proof (runlen_step s (j0 - 1) Q) as R. replace (S (j0 - 1)) with j0 in R by lia.
      assert (runlen s (j0 - 1) < k) by (apply C; lia). lia. }
  (* no exact run strictly between i and j0, nor inside the run at j0 *)
  assert (NB : forall p, i <= p < j0 -> ~ is_run s k p).
  { intros p Hp [R _]. specialize (C p Hp). lia. }
  destruct (Nat.eqb (runlen s j0) k) eqn:Q.
  - inversion H; subst. apply Nat.eqb_eq in Q. repeat split; [exact A|exact Q|exact L|exact NB].
  - apply Nat.eqb_neq in Q.
    assert (Hend : bt_at s (j0 + runlen s j0) = false) by apply run_end_not_bt.
    destruct (IH _ _ _ _ Hk Hend H) as (A2 & R2 & C2).
    repeat split; [lia|apply R2|apply R2|].
    intros p Hp. destruct (Nat.lt_ge_cases p j0) as [Hlt|Hge]; [apply NB; lia|].
    destruct (Nat.lt_ge_cases p (j0 + runlen s j0)) as [Hin|Hout]; [|apply C2; lia].
    intros [Rp Lp]. destruct (Nat.eq_dec p j0) as [->|Hn]; [congruence|].
    destruct Lp as [Lp|Lp]; [lia|].
    (* p - 1 lies inside the run that starts at j0 *)
    assert (runlen s (j0 + (p - 1 - j0)) = runlen s j0 - (p - 1 - j0)) by (apply runlen_inside; lia).
    replace (j0 + (p - 1 - j0)) with (p - 1) in H0 by lia.
    assert (bt_at s (p - 1) = true) by (apply runlen_pos_bt; lia). congruence.
Qed.

Corollary codespan_first_exact_run s k i j :
  1 <= k -> bt_at s i = false -> findBacktickRun s k i = Some j ->
  i <= j /\ is_run s k j /\ forall p, i <= p < j -> ~ is_run s k p.
Proof. apply find_backtick_run_first. Qed.
