(* C09 — binary64 on bit patterns: the order key f_key orders floats exactly as
   their real values (f_to_Q) do, hence compareFloat = the documented order on
   every pair of float64 values (finite, +-0, +-Inf, NaN). *)
From verif Require Import lib.Base model.C08_Value model.C09.
From Coq Require Import QArith Arith Lia.
Close Scope Q_scope.
Open Scope N_scope.

(* the value of a finite magnitude m, scaled by 2^1074: an integer *)
Definition W (m : N) : Z :=
  let ex := m / 2 ^ 52 in
  let mt := m mod 2 ^ 52 in
  if ex =? 0 then Z.of_N mt else ((2 ^ 52 + Z.of_N mt) * 2 ^ (Z.of_N ex - 1))%Z.

Definition sW (b : N) : Z := if f_sign b then (- W (f_mag b))%Z else W (f_mag b).

Lemma pow2_pos k : (0 <= k -> 0 < 2 ^ k)%Z.
Proof. intros H. apply Z.pow_pos_nonneg; lia. Qed.

Lemma W_split m :
  let ex := m / 2 ^ 52 in let mt := m mod 2 ^ 52 in
  m = 2 ^ 52 * ex + mt /\ mt < 2 ^ 52.
Proof.
  cbn zeta. split; [apply N.div_mod'|apply N.mod_lt]; discriminate.
Qed.

Lemma W_mono m1 m2 : m1 < m2 -> (W m1 < W m2)%Z.
Proof.
  intros L. unfold W.
  destruct (W_split m1) as [E1 B1]. destruct (W_split m2) as [E2 B2].
  set (ex1 := m1 / 2 ^ 52) in *. set (mt1 := m1 mod 2 ^ 52) in *.
  set (ex2 := m2 / 2 ^ 52) in *. set (mt2 := m2 mod 2 ^ 52) in *.
  assert (C : ex1 < ex2 \/ (ex1 = ex2 /\ mt1 < mt2)).
  { assert (P52 : 2 ^ 52 = 4503599627370496) by reflexivity. rewrite P52 in *. lia. }
  assert (P52z : (2 ^ 52 = 4503599627370496)%Z) by reflexivity.
  destruct C as [C|[C C']].
  - assert (X2 : ex2 =? 0 = false) by (apply N.eqb_neq; lia). rewrite X2.
    set (P2 := (2 ^ (Z.of_N ex2 - 1))%Z).
    assert (HP2 : (0 < P2)%Z) by (apply pow2_pos; lia).
    destruct (ex1 =? 0) eqn:X1.
    + assert (1 <= P2)%Z by lia. nia.
    + apply N.eqb_neq in X1.
      set (P1 := (2 ^ (Z.of_N ex1 - 1))%Z).
      assert (HP1 : (0 < P1)%Z) by (apply pow2_pos; lia).
      assert (D : (2 * P1 <= P2)%Z).
      { unfold P1, P2. replace (2 * 2 ^ (Z.of_N ex1 - 1))%Z with (2 ^ (Z.of_N ex1))%Z.
        - apply Z.pow_le_mono_r; lia.
        - replace (Z.of_N ex1) with (1 + (Z.of_N ex1 - 1))%Z at 1 by lia.
          rewrite Z.pow_add_r by lia. reflexivity. }
      nia.
  - rewrite <- C. destruct (ex1 =? 0) eqn:X1; [lia|].
    apply N.eqb_neq in X1.
    apply Z.mul_lt_mono_pos_r; [apply pow2_pos|]; lia.
Qed.

Lemma W_0 : W 0 = 0%Z.
Proof. reflexivity. Qed.

Lemma W_pos m : 0 < m -> (0 < W m)%Z.
Proof. intros H. rewrite <- W_0. now apply W_mono. Qed.

Lemma W_compare m1 m2 : (W m1 ?= W m2)%Z = (m1 ?= m2).
Proof.
  destruct (N.compare_spec m1 m2) as [->|L|L].
  - apply Z.compare_refl.
  - apply Z.compare_lt_iff. now apply W_mono.
  - apply Z.compare_gt_iff. now apply W_mono.
Qed.

Lemma sW_compare x y : (sW x ?= sW y)%Z = (f_key x ?= f_key y)%Z.
Proof.
  unfold sW, f_key.
  set (mx := f_mag x). set (my := f_mag y).
  pose proof (W_compare mx my) as C.
  assert (Px : mx = 0 \/ 0 < mx) by lia. assert (Py : my = 0 \/ 0 < my) by lia.
  assert (Wx : (W mx = 0%Z /\ mx = 0) \/ (0 < W mx)%Z /\ 0 < mx).
  { destruct Px as [->|Px]; [left; split; reflexivity|right; split; [now apply W_pos|assumption]]. }
  assert (Wy : (W my = 0%Z /\ my = 0) \/ (0 < W my)%Z /\ 0 < my).
  { destruct Py as [->|Py]; [left; split; reflexivity|right; split; [now apply W_pos|assumption]]. }
  destruct (f_sign x), (f_sign y).
  - rewrite !Z.compare_opp. rewrite (W_compare my mx). symmetry. apply N2Z.inj_compare.
  - destruct (Z.compare_spec (- W mx) (W my)), (Z.compare_spec (- Z.of_N mx) (Z.of_N my)); try reflexivity; lia.
  - destruct (Z.compare_spec (W mx) (- W my)), (Z.compare_spec (Z.of_N mx) (- Z.of_N my)); try reflexivity; lia.
  - rewrite C. symmetry. apply N2Z.inj_compare.
Qed.

(* f_to_Q b = sW b / 2^1074 *)
Lemma f_to_Q_scaled b : (Qnum (f_to_Q b) * 2 ^ 1074 = sW b * QDen (f_to_Q b))%Z.
Proof.
  unfold f_to_Q, sW, W.
  set (m := f_mag b). set (ex := m / 2 ^ 52). set (mt := m mod 2 ^ 52).
  destruct (ex =? 0) eqn:X.
  - change (0 <=? -1074)%Z with false. cbn [Qnum Qden].
    change (- -1074)%Z with 1074%Z.
    rewrite Z2Pos.id by (apply pow2_pos; lia).
    destruct (f_sign b); reflexivity.
  - apply N.eqb_neq in X.
    set (e := (Z.of_N ex - 1075)%Z).
    assert (M : Z.of_N (2 ^ 52 + mt) = (2 ^ 52 + Z.of_N mt)%Z) by (rewrite N2Z.inj_add; reflexivity).
    destruct (0 <=? e)%Z eqn:Le; cbn [Qnum Qden].
    + apply Z.leb_le in Le.
      replace (Z.of_N ex - 1)%Z with (e + 1074)%Z by (unfold e; lia).
      rewrite Z.pow_add_r by lia. rewrite M. destruct (f_sign b); ring.
    + apply Z.leb_gt in Le.
      rewrite Z2Pos.id by (apply pow2_pos; lia).
      replace 1074%Z with ((Z.of_N ex - 1) + - e)%Z at 1 by (unfold e; lia).
      rewrite Z.pow_add_r by (unfold e in *; lia). rewrite M. destruct (f_sign b); ring.
Qed.

Lemma QDen_pos q : (0 < QDen q)%Z.
Proof. reflexivity. Qed.

(* real-value order = key order, for every pair of patterns *)
Theorem f_to_Q_compare x y : Qcompare (f_to_Q x) (f_to_Q y) = (f_key x ?= f_key y)%Z.
Proof.
  rewrite <- sW_compare. unfold Qcompare.
  pose proof (f_to_Q_scaled x) as Sx. pose proof (f_to_Q_scaled y) as Sy.
  set (p := f_to_Q x) in *. set (q := f_to_Q y) in *.
  assert (D : (0 < 2 ^ 1074)%Z) by (apply pow2_pos; lia).
  set (d := (2 ^ 1074)%Z) in *.
  rewrite (Zmult_compare_compat_r (Qnum p * QDen q) (Qnum q * QDen p) d) by lia.
  replace (Qnum p * QDen q * d)%Z with (sW x * (QDen p * QDen q))%Z
    by (rewrite Z.mul_assoc, <- Sx; ring).
  replace (Qnum q * QDen p * d)%Z with (sW y * (QDen p * QDen q))%Z
    by (rewrite (Z.mul_comm (QDen p)), Z.mul_assoc, <- Sy; ring).
  symmetry. apply Zmult_compare_compat_r.
  pose proof (QDen_pos p). pose proof (QDen_pos q). nia.
Qed.

(* compareFloat is the documented order: NaN = NaN, NaN below every number,
   otherwise by real value with -Inf / +Inf at the ends and -0 = +0 *)
Theorem cmp_float_is_spec x y :
  spec_cmp (VFloat x) (VFloat y) = Some (cmp_float x y).
Proof.
  cbn [spec_cmp num_val]. f_equal. unfold cmp_float.
  destruct (f_is_nan x) eqn:Nx, (f_is_nan y) eqn:Ny; try reflexivity.
  - destruct (f_mag y =? f_inf_mag); [destruct (f_sign y)|]; reflexivity.
  - destruct (f_mag x =? f_inf_mag); [destruct (f_sign x)|]; reflexivity.
  - unfold f_is_nan in Nx, Ny. apply N.ltb_ge in Nx, Ny.
    unfold f_key.
    assert (I : f_inf_mag = 9218868437227405312) by reflexivity.
    destruct (N.eqb_spec (f_mag x) f_inf_mag) as [Ix|Ix], (N.eqb_spec (f_mag y) f_inf_mag) as [Iy|Iy].
    + rewrite Ix, Iy. destruct (f_sign x), (f_sign y); reflexivity.
    + rewrite Ix. rewrite I in *.
      destruct (f_sign x), (f_sign y); cbn [xnum_cmp];
        match goal with |- _ = of_comparison (?a ?= ?b)%Z => destruct (Z.compare_spec a b) end;
        try reflexivity; lia.
    + rewrite Iy. rewrite I in *.
      destruct (f_sign x), (f_sign y); cbn [xnum_cmp];
        match goal with |- _ = of_comparison (?a ?= ?b)%Z => destruct (Z.compare_spec a b) end;
        try reflexivity; lia.
    + cbn [xnum_cmp]. f_equal. apply f_to_Q_compare.
Qed.
