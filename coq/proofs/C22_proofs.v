(* C22 -- proofs about the module-cache model: frame property of [use],
   termination with fuel above the number of evaluable keys not yet cached
   (install-before-execute argument). *)
From verif Require Import lib.Base model.C22.
Open Scope N_scope.

(* ------------------------------------------------------------------ *)
(* association lists *)
Lemma bytes_eqb_false a b : bytes_eqb a b = false <-> a <> b.
Proof.
  split.
  - intros H E. apply bytes_eqb_spec in E. congruence.
  - intros H. destruct (bytes_eqb a b) eqn:E; [|reflexivity].
    apply bytes_eqb_spec in E. contradiction.
Qed.

Lemma bytes_eq_dec (a b : bytes) : {a = b} + {a <> b}.
Proof.
  destruct (bytes_eqb a b) eqn:E.
  - left. apply bytes_eqb_spec; exact E.
  - right. apply bytes_eqb_false; exact E.
Qed.

Lemma lookup_cons_eq {A} k (v : A) l : lookup k ((k, v) :: l) = Some v.
Proof. simpl. rewrite bytes_eqb_refl. reflexivity. Qed.

Lemma lookup_cons_ne {A} k k' (v : A) l : k <> k' -> lookup k ((k', v) :: l) = lookup k l.
Proof. intros H. simpl. apply bytes_eqb_false in H. rewrite H. reflexivity. Qed.

Lemma lookup_delete_same {A} k (l : list (bytes * A)) : lookup k (delete k l) = None.
Proof.
  induction l as [|[k' v] l IH]; simpl; [reflexivity|].
  destruct (bytes_eqb k k') eqn:E; simpl; [exact IH|].
  rewrite E. exact IH.
Qed.

Lemma lookup_delete_other {A} k k' (l : list (bytes * A)) :
  k' <> k -> lookup k' (delete k l) = lookup k' l.
Proof.
  intros H. induction l as [|[k2 v] l IH]; simpl; [reflexivity|].
  destruct (bytes_eqb k k2) eqn:E; simpl.
  - apply bytes_eqb_spec in E. subst k2.
    apply bytes_eqb_false in H. rewrite H. exact IH.
  - rewrite IH. reflexivity.
Qed.

Lemma lookup_delete_some {A} k k' (l : list (bytes * A)) v :
  lookup k' (delete k l) = Some v -> k' <> k /\ lookup k' l = Some v.
Proof.
  intros H. destruct (bytes_eq_dec k' k) as [->|Hne].
  - rewrite lookup_delete_same in H. discriminate.
  - split; [exact Hne|]. rewrite lookup_delete_other in H by exact Hne. exact H.
Qed.

Lemma lookup_in {A} k (l : list (bytes * A)) v : lookup k l = Some v -> In (k, v) l.
Proof.
  induction l as [|[k' v'] l IH]; simpl; [discriminate|].
  destruct (bytes_eqb k k') eqn:E.
  - intros H. inversion H; subst. apply bytes_eqb_spec in E. subst. left; reflexivity.
  - intros H. right. apply IH; exact H.
Qed.

(* ------------------------------------------------------------------ *)
(* frame: what is cached when [use] starts is still cached, unchanged, when it
   returns; the id counter never decreases *)
Definition frame (s s' : st) : Prop :=
  (forall k v, lookup k (cache s) = Some v -> lookup k (cache s') = Some v)
  /\ next s <= next s'.

Lemma frame_refl s : frame s s.
Proof. split; [auto|lia]. Qed.

Lemma frame_trans a b c : frame a b -> frame b c -> frame a c.
Proof. intros [H1 H2] [H3 H4]. split; [auto|lia]. Qed.

Lemma frame_emit e s : frame s (emit e s).
Proof. split; simpl; [auto|lia]. Qed.

Lemma frame_emit_r e s s' : frame s s' -> frame s (emit e s').
Proof. intros H. eapply frame_trans; [exact H|apply frame_emit]. Qed.

Section FrameStep.
  Context (E : env) (cx : ctx).
  Context (u : option bytes -> bytes -> st -> st * res (N * N)).
  Context (Hu : forall org spec s, frame s (fst (u org spec s))).

  Lemma exec_frame l : forall m n org s, frame s (fst (exec_stmts cx u m n org l s)).
  Proof.
    induction l as [|[spec|spec|k] l IH]; intros m n org s; simpl.
    - apply frame_refl.
    - specialize (Hu org spec s). destruct (u org spec s) as [s1 [[tm tn]|kd|]]; simpl in *.
      + eapply frame_trans; [|apply IH]. apply frame_emit_r; exact Hu.
      + exact Hu.
      + exact Hu.
    - specialize (Hu org spec s). destruct (u org spec s) as [s1 [[tm tn]|kd|]]; simpl in *.
      + eapply frame_trans; [|apply IH]. apply frame_emit_r; exact Hu.
      + eapply frame_trans; [|apply IH]. apply frame_emit_r; exact Hu.
      + exact Hu.
    - destruct (memN k (cx_flags cx)); simpl; [apply frame_refl|apply IH].
  Qed.

  Lemma eval_frame key org b s :
    lookup key (cache s) = None -> frame s (fst (eval_module cx u key org b s)).
  Proof.
    intros Hnone. unfold eval_module.
    set (s0 := mkSt _ _ _).
    assert (F0 : frame s s0).
    { split; [|simpl; lia]. intros k v Hk. unfold s0; cbn [cache].
      rewrite lookup_cons_ne; [exact Hk|]. intros ->. congruence. }
    pose proof (exec_frame (b_stmts b) (b_id b) (next s) org s0) as F1.
    destruct (exec_stmts cx u (b_id b) (next s) org (b_stmts b) s0) as [s1 [x|kd|]]; simpl in *.
    - apply frame_emit_r. eapply frame_trans; eassumption.
    - pose proof (frame_trans _ _ _ F0 F1) as [Fa Fb]. split; simpl; [|exact Fb].
      intros k v Hk. rewrite lookup_delete_other; [apply Fa; exact Hk|].
      intros ->. congruence.
    - eapply frame_trans; eassumption.
  Qed.

  Lemma use_file_frame path s s' r :
    use_file E cx u path s = Some (s', r) -> frame s s'.
  Proof.
    unfold use_file. destruct (lookup path (cache s)) eqn:Hc.
    - intros H; inversion H; subst. apply frame_refl.
    - destruct (lookup path (fs E)) as [b|]; [|discriminate].
      intros H; inversion H as [H1].
      pose proof (eval_frame path (Some (dir_of path)) b s Hc) as F.
      rewrite H1 in F. exact F.
  Qed.

  Lemma use_libs_frame spec dirs s : frame s (fst (use_libs E cx u spec dirs s)).
  Proof.
    induction dirs as [|d r IH]; simpl; [apply frame_refl|].
    destruct (use_file E cx u (join_path d spec) s) as [[s' x]|] eqn:Hf; [|exact IH].
    simpl. eapply use_file_frame; exact Hf.
  Qed.

  Lemma use_step_frame org spec s : frame s (fst (use_step E cx u org spec s)).
  Proof.
    unfold use_step. destruct (is_rel spec).
    - destruct (use_file E cx u (rel_path cx org spec) s) as [[s' x]|] eqn:Hf; simpl.
      + eapply use_file_frame; exact Hf.
      + apply frame_refl.
    - destruct (lookup spec (cache s)) eqn:Hc; simpl; [apply frame_refl|].
      destruct (lookup spec (bundled E)) as [b|].
      + apply eval_frame; exact Hc.
      + apply use_libs_frame.
  Qed.
End FrameStep.

Lemma use_frame E cx fuel : forall org spec s, frame s (fst (use E cx fuel org spec s)).
Proof.
  induction fuel as [|f IH]; intros org spec s; simpl.
  - apply frame_refl.
  - apply use_step_frame. exact IH.
Qed.

(* ------------------------------------------------------------------ *)
(* termination.  Measure: evaluable keys (files and bundled specs) that are
   not cached.  evalModule installs its key before executing the body, so
   every nested evaluation strictly lowers the measure; whatever returns
   leaves previously cached keys cached (frame), so the measure never grows
   back for the enclosing body. *)
Definition allkeys (E : env) : list bytes := map fst (fs E) ++ map fst (bundled E).

Definition in_cache (s : st) (k : bytes) : bool :=
  match lookup k (cache s) with Some _ => true | None => false end.

Definition avail (E : env) (s : st) : nat :=
  length (filter (fun k => negb (in_cache s k)) (allkeys E)).

Lemma flen_le {A} (f g : A -> bool) l :
  (forall x, f x = true -> g x = true) -> (length (filter f l) <= length (filter g l))%nat.
Proof.
  intros H. induction l as [|x l IH]; simpl; [lia|].
  destruct (f x) eqn:Ef.
  - rewrite (H x Ef). simpl. lia.
  - destruct (g x); simpl; lia.
Qed.

Lemma flen_lt {A} (f g : A -> bool) l a :
  (forall x, f x = true -> g x = true) -> In a l -> f a = false -> g a = true ->
  (length (filter f l) < length (filter g l))%nat.
Proof.
  intros H. induction l as [|x l IH]; simpl; [tauto|].
  intros [->|Hin] Fa Ga.
  - rewrite Fa, Ga. simpl. pose proof (flen_le f g l H). lia.
  - specialize (IH Hin Fa Ga). destruct (f x) eqn:Ef.
    + rewrite (H x Ef). simpl. lia.
    + destruct (g x); simpl; lia.
Qed.

Lemma avail_mono E s s' : frame s s' -> (avail E s' <= avail E s)%nat.
Proof.
  intros [F _]. unfold avail. apply flen_le.
  intros k. unfold in_cache. destruct (lookup k (cache s)) eqn:Hk.
  - rewrite (F _ _ Hk). discriminate.
  - reflexivity.
Qed.

Lemma flen_all {A} (f : A -> bool) l : (length (filter f l) <= length l)%nat.
Proof. induction l as [|x l IH]; simpl; [lia|]. destruct (f x); simpl; lia. Qed.

Lemma avail_le_all E s : (avail E s <= length (allkeys E))%nat.
Proof. unfold avail. apply flen_all. Qed.

Lemma in_allkeys_fs E k b : lookup k (fs E) = Some b -> In k (allkeys E).
Proof.
  intros H. apply lookup_in in H. unfold allkeys. apply in_or_app. left.
  change k with (fst (k, b)). apply in_map. exact H.
Qed.

Lemma in_allkeys_bundled E k b : lookup k (bundled E) = Some b -> In k (allkeys E).
Proof.
  intros H. apply lookup_in in H. unfold allkeys. apply in_or_app. right.
  change k with (fst (k, b)). apply in_map. exact H.
Qed.

Lemma avail_install E s key v n' tr :
  In key (allkeys E) -> lookup key (cache s) = None ->
  (avail E (mkSt ((key, v) :: cache s) n' tr) < avail E s)%nat.
Proof.
  intros Hin Hnone. unfold avail. apply flen_lt with (a := key); [|exact Hin| |].
  - intros k. unfold in_cache; cbn [cache].
    destruct (bytes_eq_dec k key) as [->|Hne].
    + rewrite lookup_cons_eq. discriminate.
    + rewrite lookup_cons_ne by exact Hne. auto.
  - unfold in_cache; cbn [cache]. rewrite lookup_cons_eq. reflexivity.
  - unfold in_cache. rewrite Hnone. reflexivity.
Qed.

Section TermStep.
  Context (E : env) (cx : ctx) (f : nat).
  Context (u : option bytes -> bytes -> st -> st * res (N * N)).
  Context (Hfr : forall org spec s, frame s (fst (u org spec s))).
  Context (Hu : forall org spec s, (avail E s < f)%nat -> snd (u org spec s) <> OOF).

  Lemma exec_term l : forall m n org s,
    (avail E s < f)%nat -> snd (exec_stmts cx u m n org l s) <> OOF.
  Proof.
    induction l as [|[spec|spec|k] l IH]; intros m n org s Hs; simpl.
    - discriminate.
    - pose proof (Hu org spec s Hs) as H1. pose proof (Hfr org spec s) as F.
      destruct (u org spec s) as [s1 [[tm tn]|kd|]]; simpl in *.
      + apply IH. pose proof (avail_mono E _ _ (frame_emit_r (ESeen (cx_a cx) (IMod m n) spec tm tn) _ _ F)). lia.
      + discriminate.
      + exfalso; apply H1; reflexivity.
    - pose proof (Hu org spec s Hs) as H1. pose proof (Hfr org spec s) as F.
      destruct (u org spec s) as [s1 [[tm tn]|kd|]]; simpl in *.
      + apply IH. pose proof (avail_mono E _ _ (frame_emit_r (ESeen (cx_a cx) (IMod m n) spec tm tn) _ _ F)). lia.
      + apply IH. pose proof (avail_mono E _ _ (frame_emit_r (ECaught m n) _ _ F)). lia.
      + exfalso; apply H1; reflexivity.
    - destruct (memN k (cx_flags cx)); simpl; [discriminate|apply IH; exact Hs].
  Qed.

  Lemma eval_term key org b s :
    In key (allkeys E) -> lookup key (cache s) = None -> (avail E s < S f)%nat ->
    snd (eval_module cx u key org b s) <> OOF.
  Proof.
    intros Hin Hnone Hs. unfold eval_module.
    pose proof (avail_install E s key (b_id b, next s) (next s + 1)
                  (EStart (b_id b) (next s) :: rtrace s) Hin Hnone) as Hlt.
    set (s0 := mkSt _ _ _) in *.
    assert (H0 : (avail E s0 < f)%nat) by lia.
    pose proof (exec_term (b_stmts b) (b_id b) (next s) org s0 H0) as H1.
    destruct (exec_stmts cx u (b_id b) (next s) org (b_stmts b) s0) as [s1 [x|kd|]]; simpl in *;
      [discriminate|discriminate|exfalso; apply H1; reflexivity].
  Qed.

  Lemma use_file_term path s s' r :
    use_file E cx u path s = Some (s', r) -> (avail E s < S f)%nat -> r <> OOF.
  Proof.
    unfold use_file. destruct (lookup path (cache s)) eqn:Hc.
    - intros H _; inversion H; subst. discriminate.
    - destruct (lookup path (fs E)) as [b|] eqn:Hfs; [|discriminate].
      intros H Hs; inversion H as [H1].
      pose proof (eval_term path (Some (dir_of path)) b s (in_allkeys_fs _ _ _ Hfs) Hc Hs) as T.
      rewrite H1 in T. exact T.
  Qed.

  Lemma use_libs_term spec dirs s :
    (avail E s < S f)%nat -> snd (use_libs E cx u spec dirs s) <> OOF.
  Proof.
    intros Hs. induction dirs as [|d r IH]; simpl; [discriminate|].
    destruct (use_file E cx u (join_path d spec) s) as [[s' x]|] eqn:Hf; [|exact IH].
    simpl. eapply use_file_term; eassumption.
  Qed.

  Lemma use_step_term org spec s :
    (avail E s < S f)%nat -> snd (use_step E cx u org spec s) <> OOF.
  Proof.
    intros Hs. unfold use_step. destruct (is_rel spec).
    - destruct (use_file E cx u (rel_path cx org spec) s) as [[s' x]|] eqn:Hf; simpl.
      + eapply use_file_term; eassumption.
      + discriminate.
    - destruct (lookup spec (cache s)) eqn:Hc; simpl; [discriminate|].
      destruct (lookup spec (bundled E)) as [b|] eqn:Hb.
      + apply eval_term; [eapply in_allkeys_bundled; exact Hb|exact Hc|exact Hs].
      + apply use_libs_term; exact Hs.
  Qed.
End TermStep.

Theorem use_terminates_avail E cx fuel : forall org spec s,
  (avail E s < fuel)%nat -> snd (use E cx fuel org spec s) <> OOF.
Proof.
  induction fuel as [|f IH]; intros org spec s Hs; [lia|].
  simpl. apply use_step_term with (f := f); [apply use_frame|exact IH|exact Hs].
Qed.

Theorem use_terminates E cx org spec s :
  snd (use E cx (fuel_of E) org spec s) <> OOF.
Proof.
  apply use_terminates_avail. pose proof (avail_le_all E s) as H.
  unfold fuel_of. unfold allkeys in H. rewrite app_length, !map_length in H. lia.
Qed.
