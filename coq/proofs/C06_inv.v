(* C06 — the representation invariant of a vector and the abstraction
   function to plain lists. *)
From Coq Require Import Lia ZArith List Bool Arith.
From verif Require Import lib.Base lib.ListX model.C06 proofs.C06_defs proofs.C06_tree.
Open Scope nat_scope.

Section Inv.
Variable b : Z.
Notation Bn := (B b).
Notation pw := (pw b).

Definition cnt (v : vec) : nat := Z.to_nat (count v).

(* the element at position i: in the tree below the tree size, in the tail above *)
Definition lookup (v : vec) (i : nat) : any :=
  match (if i <? tsn b (cnt v) then tget b (height v) (root v) i
         else nth_error (tail v) (i - tsn b (cnt v))) with
  | Some x => x
  | None => ANil
  end.

(* abstraction: the sequence of elements *)
Definition abs (v : vec) : list any := map (lookup v) (seq 0 (cnt v)).

(* invariant: count >= 0; the tail holds exactly the elements above the tree
   size; the tree is a left-packed tree of L = treeSize/B full leaves whose
   height is the least one that can hold them (height 0 when L <= 1; when
   L = 0 the root is not constrained: it is nil initially and a stale leaf
   after popping down to B elements) *)
Definition Inv (v : vec) : Prop :=
  (0 <= count v)%Z /\
  length (tail v) = cnt v - tsn b (cnt v) /\
  let L := tsn b (cnt v) / Bn in
  L <= pw (height v) /\
  (height v = 0 \/ pw (height v - 1) < L) /\
  (0 < L -> shape b (height v) (root v) L).

Lemma abs_length v : length (abs v) = cnt v.
Proof. unfold abs. rewrite map_length, seq_length. reflexivity. Qed.

Lemma abs_nth v i : i < cnt v -> nth_error (abs v) i = Some (lookup v i).
Proof.
  intros H. unfold abs. rewrite nth_error_map, nth_error_nth' with (d := 0) by (rewrite seq_length; lia).
  rewrite seq_nth by lia. reflexivity.
Qed.

(* two vectors of the same length with the same lookups have the same abstraction *)
Lemma abs_ext w (f : nat -> any) n :
  cnt w = n -> (forall i, i < n -> lookup w i = f i) -> abs w = map f (seq 0 n).
Proof. intros <- H. unfold abs. apply map_ext_in. intros i Hi. apply in_seq in Hi. apply H. lia. Qed.

End Inv.
