(* C17 — proofs about goFn.Call, scanOptions and Closure.Call (model/C17.v) *)
From verif Require Import lib.Base model.C17 proofs.C17_proofs.
From Coq Require Import ZifyBool ZifyNat.
Open Scope Z_scope.

(* ================================================================== *)
(* B. Closure.Call *)

Lemma bind_range_ok {A} (args : list A) : forall fuel i hi off (slots : list (binding A)),
  0 <= i -> hi <= zlen slots -> (i < hi -> 0 <= i + off /\ hi + off <= zlen args) ->
  exists s', bind_range fuel i hi off args slots = Ok s' /\ zlen s' = zlen slots.
Proof.
  induction fuel as [|f IH]; intros i hi off slots Hi Hhi Hoff; cbn [bind_range]; [eauto|].
  destruct (i <? hi) eqn:E; [|eauto].
  assert (Hlt : i < hi) by lia. destruct (Hoff Hlt) as [Ho1 Ho2].
  destruct (idx_ok args (i + off)) as [a ->]; [lia|]. cbn [bind].
  rewrite sto_ok by lia. cbn [bind].
  destruct (IH (i + 1) hi off (set_nth slots (Z.to_nat i) (One a))) as (s' & Hs & Hl);
    try rewrite zlen_set_nth; try lia.
  exists s'. split; [exact Hs|]. now rewrite Hl, zlen_set_nth.
Qed.

Lemma bind_opts_ok {A} (defaults : list A) (given : list (N * A)) offset :
  forall optnames fuel i (slots : list (binding A)),
  0 <= i -> 0 <= offset -> offset + i + zlen optnames <= zlen slots ->
  i + zlen optnames <= zlen defaults ->
  exists s', bind_opts fuel i optnames defaults given offset slots = Ok s'.
Proof.
  induction optnames as [|name r IH]; intros fuel i slots Hi Hoff Hs Hd.
  - destruct fuel; cbn [bind_opts]; eauto.
  - destruct fuel as [|f]; cbn [bind_opts]; [eauto|].
    assert (Hz : zlen (name :: r) = 1 + zlen r) by (unfold zlen; cbn [length]; lia).
    rewrite Hz in Hs, Hd. pose proof (zlen_nonneg r).
    assert (Hv : exists a, match find (fun kv : N * A => (fst kv =? name)%N) given with
                           | Some kv => Ok (snd kv)
                           | None => idx defaults i end = Ok a).
    { destruct (find _ given); [eauto|]. apply idx_ok. lia. }
    destruct Hv as [a ->]. cbn [bind]. rewrite sto_ok by lia. cbn [bind].
    apply IH; try rewrite zlen_set_nth; lia.
Qed.

(* the arity check implies that every args[i] and args[a:b] of Closure.Call is in range *)
Lemma closure_call_slices_in_bounds {A} nnames rest optnames (defaults : list A) nnew args given :
  0 <= nnames -> (rest = -1 \/ 0 <= rest < nnames) -> 0 <= nnew ->
  zlen optnames <= zlen defaults ->
  is_panic (closure_call nnames rest optnames defaults nnew args given) = false.
Proof.
  intros Hn Hrest Hnew Hdef. unfold closure_call.
  pose proof (zlen_nonneg args) as Hna. pose proof (zlen_nonneg optnames) as Hno.
  set (na := zlen args) in *.
  destruct (negb (rest =? -1)) eqn:Er.
  - (* rest argument *)
    destruct (na <? nnames - 1) eqn:Ea; [reflexivity|]. cbn [bind].
    destruct (existsb _ given); [reflexivity|].
    destruct (nnames + zlen optnames + nnew <? 0) eqn:El; [lia|].
    set (ls := nnames + zlen optnames + nnew) in *.
    assert (Hls : zlen (repeat (@Unset A) (Z.to_nat ls)) = ls) by (rewrite zlen_repeat; lia).
    destruct (rest =? -1) eqn:Er'; [discriminate|].
    assert (Hr : 0 <= rest < nnames) by lia.
    destruct (bind_range_ok args (S (Z.to_nat nnames)) 0 rest 0 (repeat Unset (Z.to_nat ls)))
      as (s1 & -> & Hl1); try lia. cbn [bind].
    rewrite slc_ok by lia. cbn [bind].
    rewrite sto_ok by lia. cbn [bind].
    destruct (bind_range_ok args (S (Z.to_nat nnames)) (rest + 1) nnames (na - nnames)
                (set_nth s1 (Z.to_nat rest) (Many (firstn (Z.to_nat (rest + (na - nnames) + 1 - rest))
                                                      (skipn (Z.to_nat rest) args)))))
      as (s3 & -> & Hl3); try rewrite zlen_set_nth; try lia. cbn [bind].
    destruct (bind_opts_ok defaults given nnames optnames (S (length optnames)) 0 s3) as [s4 ->];
      try lia; [rewrite Hl3, zlen_set_nth; lia|reflexivity].
  - destruct (negb (na =? nnames)) eqn:Ea; [reflexivity|]. cbn [bind].
    destruct (existsb _ given); [reflexivity|].
    destruct (nnames + zlen optnames + nnew <? 0) eqn:El; [lia|].
    set (ls := nnames + zlen optnames + nnew) in *.
    assert (Hls : zlen (repeat (@Unset A) (Z.to_nat ls)) = ls) by (rewrite zlen_repeat; lia).
    destruct (rest =? -1) eqn:Er'; [|discriminate].
    destruct (bind_range_ok args (S (Z.to_nat nnames)) 0 nnames 0 (repeat Unset (Z.to_nat ls)))
      as (s1 & -> & Hl1); try lia. cbn [bind].
    destruct (bind_opts_ok defaults given nnames optnames (S (length optnames)) 0 s1) as [s4 ->];
      try lia; reflexivity.
Qed.

(* without the arity check the same code does index out of range: the check is what protects it *)
Lemma closure_call_unchecked_arity_example :
  bind_range 3 0 2 0 [7%N] (repeat (@Unset N) 2) = Panic PIndex.
Proof. reflexivity. Qed.

(* ================================================================== *)
(* A. scanOptions *)

Lemma key_in_spec k ks : key_in k ks = true <-> In k ks.
Proof.
  unfold key_in. rewrite existsb_exists. split.
  - intros (x & Hx & He). apply N.eqb_eq in He. now subst.
  - intros H. exists k. split; [exact H|apply N.eqb_refl].
Qed.

Lemma find_unknown_panic raw keys :
  find_unknown_option raw keys = Panic PImpossible -> incl (map fst raw) keys.
Proof.
  unfold find_unknown_option.
  destruct (existsb (fun kv => negb (key_in (fst kv) keys)) raw) eqn:E; [discriminate|].
  intros _ k Hk. apply in_map_iff in Hk as (kv & <- & Hin).
  apply key_in_spec. destruct (key_in (fst kv) keys) eqn:Ek; [reflexivity|].
  assert (existsb (fun kv => negb (key_in (fst kv) keys)) raw = true).
  { apply existsb_exists. exists kv. split; [exact Hin|now rewrite Ek]. }
  congruence.
Qed.

Lemma find_unknown_cases raw keys :
  find_unknown_option raw keys = Err EBadOption \/ find_unknown_option raw keys = Panic PImpossible.
Proof. unfold find_unknown_option. destruct (existsb _ raw); auto. Qed.

Lemma lookup_opt_in k raw : In k (map fst raw) -> lookup_opt k raw <> None.
Proof.
  induction raw as [|[k' v] r IH]; cbn; [tauto|].
  intros [->|H]; [rewrite N.eqb_refl; discriminate|].
  destruct (N.eqb k k'); [discriminate|auto].
Qed.

Definition present (raw : list (N * vkind)) (kt : N * gtype) : bool :=
  match lookup_opt (fst kt) raw with Some _ => true | None => false end.

Lemma scan_fields_used fields raw : forall u used,
  scan_fields fields raw u = Ok used -> used = u + zlen (filter (present raw) fields).
Proof.
  induction fields as [|[k t] r IH]; intros u used H; cbn [scan_fields] in H.
  - inversion H. unfold zlen; cbn. lia.
  - cbn [filter]. unfold present at 1. cbn [fst].
    destruct (lookup_opt k raw) as [v|].
    + destruct (scan_ok t v); [|discriminate]. apply IH in H. subst.
      unfold zlen; cbn [length]. unfold zlen. lia.
    + now apply IH.
Qed.

Lemma scan_fields_no_panic fields raw : forall u, is_panic (scan_fields fields raw u) = false.
Proof.
  induction fields as [|[k t] r IH]; intros u; cbn [scan_fields]; [reflexivity|].
  destruct (lookup_opt k raw) as [v|]; [|apply IH]. destruct (scan_ok t v); [apply IH|reflexivity].
Qed.

(* the two panic("unreachable") sites of scanOptions are unreachable: pigeonhole *)
Lemma scan_options_no_panic fields raw :
  NoDup (map fst raw) -> is_panic (scan_options fields raw) = false.
Proof.
  intros Hnd. unfold scan_options.
  destruct (zlen raw >? zlen (map fst fields)) eqn:E1.
  - destruct (find_unknown_cases raw (map fst fields)) as [->| Hp]; [reflexivity|].
    apply find_unknown_panic in Hp. apply (NoDup_incl_length Hnd) in Hp.
    unfold zlen in E1. rewrite map_length in Hp. lia.
  - pose proof (scan_fields_no_panic fields raw 0) as Hsf.
    destruct (scan_fields fields raw 0) as [used| |] eqn:Es; [|reflexivity|discriminate]. cbn [bind].
    destruct (zlen raw >? used) eqn:E2; [|reflexivity].
    destruct (find_unknown_cases raw (map fst fields)) as [->| Hp]; [reflexivity|].
    apply find_unknown_panic in Hp. apply scan_fields_used in Es.
    (* every raw key is a field that is present: at least |raw| fields were used *)
    assert (Hincl : incl (map fst raw) (map fst (filter (present raw) fields))).
    { intros k Hk. specialize (Hp k Hk). apply in_map_iff in Hp as ([k' t] & Hkk & Hin).
      cbn in Hkk; subst k'. apply in_map_iff. exists (k, t). split; [reflexivity|].
      apply filter_In. split; [exact Hin|]. unfold present. cbn [fst].
      pose proof (lookup_opt_in k raw Hk). destruct (lookup_opt k raw); [reflexivity|congruence]. }
    apply (NoDup_incl_length Hnd) in Hincl. rewrite !map_length in Hincl.
    unfold zlen in *. lia.
Qed.

(* ================================================================== *)
(* A. NewGoFn / goFn.Call *)

Definition tail_of (vo : option gtype) (inputs : bool) : list gtype :=
  match vo with Some t => [t] | None => if inputs then [GInputs] else [] end.

Lemma gtype_eqb_spec a b : gtype_eqb a b = true <-> a = b.
Proof. destruct a, b; cbn; split; intros H; try reflexivity; try discriminate. Qed.

Lemma gtype_eqb_refl a : gtype_eqb a a = true.
Proof. now apply gtype_eqb_spec. Qed.

Lemma gofn_rest_shape v : forall ps n vo i,
  gofn_rest ps v = (n, vo, i) ->
  ps = n ++ tail_of vo i
  /\ (vo <> None -> v = true) /\ (i = true -> vo = None) /\ (v = true -> ps <> [] -> vo <> None).
Proof.
  induction ps as [|p r IH]; intros n vo i H.
  - cbn in H. inversion H; subst. cbn. repeat split; try congruence; tauto.
  - destruct r as [|q r'].
    + cbn in H. destruct v.
      * inversion H; subst. cbn. repeat split; congruence.
      * destruct (gtype_eqb p GInputs) eqn:Ep; inversion H; subst; cbn.
        -- apply gtype_eqb_spec in Ep; subst. repeat split; congruence.
        -- repeat split; congruence.
    + change (gofn_rest (p :: q :: r') v) with
        (let '(n, v', i) := gofn_rest (q :: r') v in (p :: n, v', i)) in H.
      destruct (gofn_rest (q :: r') v) as [[n' vo'] i'] eqn:Er. inversion H; subst.
      destruct (IH n' vo i eq_refl) as (Hps & Hv & Hi & Hne).
      repeat split; auto.
      * cbn [app]. now rewrite <- Hps.
      * intros Hvt _. apply Hne; [exact Hvt|discriminate].
Qed.

Lemma head_is_true ps v t :
  head_is ps v t = true -> ps = t :: tl ps /\ (v = true -> tl ps <> []).
Proof.
  unfold head_is. destruct ps as [|p [|q r]]; [discriminate| |].
  - intros H. apply andb_true_iff in H as [Hv Hp]. apply gtype_eqb_spec in Hp; subst.
    split; [reflexivity|]. intros ->. discriminate.
  - intros Hp. apply gtype_eqb_spec in Hp; subst. split; [reflexivity|]. intros _. discriminate.
Qed.

Definition pre_of (g : gofn) : list gtype :=
  (if g_frame g then [GFrame] else []) ++ (if g_rawopts g then [GRawOpts] else [])
  ++ (if g_opts g then [GOptsStruct] else []).

Lemma new_gofn_shape ps v g :
  new_gofn ps v = Some g -> (v = true -> ps <> []) ->
  ps = pre_of g ++ g_normal g ++ tail_of (g_variadic g) (g_inputs g)
  /\ (g_variadic g <> None -> v = true) /\ (g_inputs g = true -> g_variadic g = None)
  /\ (v = true -> g_variadic g <> None).
Proof.
  unfold new_gofn. intros H Hne.
  set (fr := head_is ps v GFrame) in *.
  set (ps1 := if fr then tl ps else ps) in *.
  set (ro := head_is ps1 v GRawOpts) in *.
  set (ps2 := if ro then tl ps1 else ps1) in *.
  set (op := head_is ps2 v GOptsStruct) in *.
  destruct (op && ro) eqn:Eor; [discriminate|].
  set (ps3 := if op then tl ps2 else ps2) in *.
  destruct (gofn_rest ps3 v) as [[n vo] i] eqn:Er. inversion H; subst g; clear H.
  unfold pre_of. cbn [g_frame g_rawopts g_opts g_normal g_variadic g_inputs].
  destruct (gofn_rest_shape v ps3 n vo i Er) as (Hps3 & Hv & Hi & Hvne).
  (* peel the three optional heads *)
  assert (H1 : ps = (if fr then [GFrame] else []) ++ ps1 /\ (v = true -> ps1 <> [])).
  { subst ps1. destruct fr eqn:Efr.
    - destruct (head_is_true ps v GFrame Efr) as [Hp Hn]. split; [exact Hp|exact Hn].
    - split; [reflexivity|exact Hne]. }
  destruct H1 as [H1 Hne1].
  assert (H2 : ps1 = (if ro then [GRawOpts] else []) ++ ps2 /\ (v = true -> ps2 <> [])).
  { subst ps2. destruct ro eqn:Ero.
    - destruct (head_is_true ps1 v GRawOpts Ero) as [Hp Hn]. split; [exact Hp|exact Hn].
    - split; [reflexivity|exact Hne1]. }
  destruct H2 as [H2 Hne2].
  assert (H3 : ps2 = (if op then [GOptsStruct] else []) ++ ps3 /\ (v = true -> ps3 <> [])).
  { subst ps3. destruct op eqn:Eop.
    - destruct (head_is_true ps2 v GOptsStruct Eop) as [Hp Hn]. split; [exact Hp|exact Hn].
    - split; [reflexivity|exact Hne2]. }
  destruct H3 as [H3 Hne3].
  repeat split; auto.
  rewrite H1, H2, H3, Hps3. now rewrite <- !app_assoc.
Qed.

Lemma skipn_nth_cons {A} (l : list A) i t :
  nth_error l i = Some t -> skipn i l = t :: skipn (S i) l.
Proof.
  revert i; induction l as [|x l IH]; intros [|i] H; cbn in *; try discriminate.
  - now inversion H.
  - now apply IH.
Qed.

Lemma conv_args_spec g : forall args i ss,
  conv_args g args i = Ok ss ->
  ss = map SIn (firstn (length args) (skipn i (g_normal g)))
       ++ match g_variadic g with
          | Some t => repeat (SIn t) (length args - (length (g_normal g) - i))
          | None => []
          end.
Proof.
  induction args as [|a r IH]; intros i ss H; cbn [conv_args] in H.
  - inversion H; subst. cbn. destruct (g_variadic g); reflexivity.
  - destruct (Nat.ltb i (length (g_normal g))) eqn:Elt.
    + apply Nat.ltb_lt in Elt.
      destruct (nth_error (g_normal g) i) as [t|] eqn:En;
        [|apply nth_error_None in En; lia].
      cbn [bind] in H. destruct (scan_ok t a); [|discriminate].
      destruct (conv_args g r (S i)) as [s| |] eqn:Ec; try discriminate. cbn [bind] in H.
      inversion H; subst. rewrite (IH (S i) s Ec).
      rewrite (skipn_nth_cons _ _ _ En). cbn [length firstn map app].
      f_equal. f_equal. destruct (g_variadic g); [|reflexivity]. f_equal. lia.
    + apply Nat.ltb_ge in Elt.
      rewrite (skipn_all2 (g_normal g)) by lia. rewrite firstn_nil. cbn [map app].
      destruct (g_variadic g) as [t|] eqn:Ev.
      * cbn [bind] in H. destruct (scan_ok t a); [|discriminate].
        destruct (conv_args g r (S i)) as [s| |] eqn:Ec; try discriminate. cbn [bind] in H.
        inversion H; subst. rewrite (IH (S i) s Ec).
        rewrite (skipn_all2 (g_normal g)) by lia. rewrite firstn_nil. cbn [map app length].
        replace (S (length r) - (length (g_normal g) - i))%nat
          with (S (length r - (length (g_normal g) - S i)))%nat by lia.
        reflexivity.
      * destruct (g_inputs g); [|discriminate]. cbn [bind] in H. now inversion H.
Qed.

Lemma conv_args_no_panic g : forall args i,
  (g_variadic g <> None \/ g_inputs g = true \/ (i + length args <= length (g_normal g))%nat) ->
  is_panic (conv_args g args i) = false.
Proof.
  induction args as [|a r IH]; intros i H; cbn [conv_args]; [reflexivity|].
  destruct (Nat.ltb i (length (g_normal g))) eqn:Elt.
  - apply Nat.ltb_lt in Elt.
    destruct (nth_error (g_normal g) i) as [t|] eqn:En; [|apply nth_error_None in En; lia].
    cbn [bind]. destruct (scan_ok t a); [|reflexivity].
    assert (Hr : is_panic (conv_args g r (S i)) = false).
    { apply IH. destruct H as [H|[H|H]]; auto. right; right. cbn [length] in H. lia. }
    destruct (conv_args g r (S i)); [reflexivity|reflexivity|discriminate].
  - apply Nat.ltb_ge in Elt.
    destruct (g_variadic g) as [t|] eqn:Ev.
    + cbn [bind]. destruct (scan_ok t a); [|reflexivity].
      assert (Hr : is_panic (conv_args g r (S i)) = false) by (apply IH; left; discriminate).
      destruct (conv_args g r (S i)); [reflexivity|reflexivity|discriminate].
    + destruct (g_inputs g) eqn:Ei; [reflexivity|].
      destruct H as [H|[H|H]]; [congruence|discriminate|]. cbn [length] in H. lia.
Qed.

Lemma slots_match_map ps : slots_match ps (map SIn ps) = true.
Proof. induction ps as [|p r IH]; cbn; [reflexivity|]. now rewrite gtype_eqb_refl. Qed.

Lemma process_rets_no_panic rets : is_panic (process_rets rets) = false.
Proof.
  unfold process_rets. pose proof (zlen_nonneg rets).
  destruct (zlen rets >? 0) eqn:E; [|reflexivity].
  destruct (idx_ok rets (zlen rets - 1)) as [last ->]; [lia|]. cbn [bind].
  destruct (is_err_type last); [|reflexivity].
  destruct last; try reflexivity; rewrite slc_ok by lia; reflexivity.
Qed.

Lemma forallb_repeat {A} (f : A -> bool) x n : f x = true -> forallb f (repeat x n) = true.
Proof. intros H. induction n; cbn; [reflexivity|]. now rewrite H. Qed.

Lemma pre_slots g :
  ((if g_frame g then [SIn GFrame] else []) ++ (if g_rawopts g then [SIn GRawOpts] else []))
  ++ (if g_opts g then [SIn GOptsStruct] else []) = map SIn (pre_of g).
Proof. unfold pre_of. destruct (g_frame g), (g_rawopts g), (g_opts g); reflexivity. Qed.

Lemma firstn_len_app {A} (a b : list A) : firstn (length a) (a ++ b) = a.
Proof. induction a as [|x a IH]; cbn; [now destruct b|now rewrite IH]. Qed.

Lemma skipn_len_app {A} (a b : list A) : skipn (length a) (a ++ b) = b.
Proof. induction a as [|x a IH]; cbn; auto. Qed.

Lemma reflect_ok_variadic pre normal t n :
  reflect_call_ok ((pre ++ normal) ++ [t]) true
    (map SIn (pre ++ normal) ++ repeat (SIn t) n) = true.
Proof.
  unfold reflect_call_ok.
  assert (Hlen : (length ((pre ++ normal) ++ [t]) - 1 = length (pre ++ normal))%nat).
  { rewrite app_length. cbn [length]. lia. }
  cbv zeta. rewrite Hlen. rewrite nth_error_app2 by lia. rewrite Nat.sub_diag. cbn [nth_error].
  rewrite firstn_len_app.
  rewrite <- (map_length SIn (pre ++ normal)).
  rewrite firstn_len_app, skipn_len_app.
  rewrite slots_match_map. rewrite forallb_repeat by apply gtype_eqb_refl.
  rewrite app_length. rewrite andb_true_r, andb_true_r. apply Nat.leb_le. lia.
Qed.

(* goFn.Call never panics: neither its own "impossible" branch and indexing,
   nor scanOptions' "unreachable", nor reflect.Value.Call's argument checks,
   nor the return-value slicing *)
Lemma gofn_call_no_panic ps variadic fields rets g args opts :
  new_gofn ps variadic = Some g -> (variadic = true -> ps <> []) ->
  NoDup (map fst opts) ->
  is_panic (gofn_call ps variadic fields rets g args opts) = false.
Proof.
  intros Hnew Hne Hnd.
  destruct (new_gofn_shape ps variadic g Hnew Hne) as (Hps & Hv1 & Hi & Hv2).
  pose proof (process_rets_no_panic rets) as Hpr.
  pose proof (zlen_nonneg (g_normal g)) as Hnn0.
  assert (Hopt : forall (k : list slot -> res call_obs),
            (forall l, l = (if g_opts g then [SIn GOptsStruct] else []) -> is_panic (k l) = false) ->
            is_panic (bind (if g_opts g then bind (scan_options fields opts) (fun _ => Ok [SIn GOptsStruct])
                            else Ok []) k) = false).
  { intros k Hk. destruct (g_opts g); [|apply Hk; reflexivity].
    pose proof (scan_options_no_panic fields opts Hnd) as Hso.
    destruct (scan_options fields opts) as [[]| |]; [apply Hk; reflexivity|reflexivity|discriminate]. }
  unfold gofn_call.
  set (na := zlen args). set (nn := zlen (g_normal g)).
  destruct (g_variadic g) as [t|] eqn:Ev.
  - (* variadic *)
    assert (Hvt : variadic = true) by (apply Hv1; discriminate).
    assert (Hgi : g_inputs g = false).
    { destruct (g_inputs g); [specialize (Hi eq_refl); discriminate|reflexivity]. }
    rewrite Hgi. cbn [tail_of] in Hps.
    destruct (na <? nn) eqn:Ea; [reflexivity|]. cbn [bind].
    destruct (negb (g_rawopts g) && negb (g_opts g) && (zlen opts >? 0)); [reflexivity|].
    apply Hopt. intros in1 ->.
    pose proof (conv_args_no_panic g args 0%nat) as Hcnp. rewrite Ev in Hcnp.
    specialize (Hcnp ltac:(left; discriminate)).
    destruct (conv_args g args 0) as [in2| |] eqn:Ec; [|reflexivity|discriminate]. cbn [bind].
    apply conv_args_spec in Ec. rewrite Ev in Ec. cbn [skipn] in Ec. rewrite Nat.sub_0_r in Ec.
    rewrite firstn_all2 in Ec by (unfold na, nn, zlen in Ea; lia). subst in2.
    rewrite app_nil_r. rewrite app_assoc, pre_slots. rewrite app_assoc, <- map_app.
    rewrite Hps at 1. rewrite app_assoc. rewrite Hvt. rewrite reflect_ok_variadic. cbn [negb].
    destruct (process_rets rets); [reflexivity|reflexivity|discriminate].
  - assert (Hvf : variadic = false).
    { destruct variadic; [|reflexivity]. exfalso. now apply Hv2. }
    destruct (g_inputs g) eqn:Egi; cbn [tail_of] in Hps.
    + (* optional inputs *)
      destruct (negb (na =? nn) && negb (na =? nn + 1)) eqn:Ea; [reflexivity|]. cbn [bind].
      destruct (negb (g_rawopts g) && negb (g_opts g) && (zlen opts >? 0)); [reflexivity|].
      apply Hopt. intros in1 ->.
      pose proof (conv_args_no_panic g args 0%nat) as Hcnp. rewrite Egi in Hcnp.
      specialize (Hcnp ltac:(right; left; reflexivity)).
      destruct (conv_args g args 0) as [in2| |] eqn:Ec; [|reflexivity|discriminate]. cbn [bind].
      apply conv_args_spec in Ec. rewrite Ev in Ec. cbn [skipn] in Ec.
      rewrite firstn_all2 in Ec by (unfold na, nn, zlen in Ea; lia). rewrite app_nil_r in Ec. subst in2.
      assert (Hin3 : forall (k : list slot -> res call_obs),
                is_panic (k [SIn GInputs]) = false ->
                is_panic (bind (if na =? nn then Ok [SIn GInputs]
                                else bind (idx args (na - 1)) (fun it =>
                                     if can_iterate it then Ok [SIn GInputs] else Err ENotIterable)) k) = false).
      { intros k Hk. destruct (na =? nn) eqn:En; [exact Hk|].
        destruct (idx_ok args (na - 1)) as [it ->]; [unfold na, nn in *; lia|]. cbn [bind].
        destruct (can_iterate it); [exact Hk|reflexivity]. }
      apply Hin3.
      rewrite app_assoc, pre_slots.
      assert (Hall : map SIn (pre_of g) ++ map SIn (g_normal g) ++ [SIn GInputs] = map SIn ps).
      { rewrite Hps at 1. now rewrite !map_app. }
      rewrite Hall, Hvf. unfold reflect_call_ok. rewrite slots_match_map. cbn [negb].
      destruct (process_rets rets); [reflexivity|reflexivity|discriminate].
    + (* fixed arity *)
      destruct (negb (na =? nn)) eqn:Ea; [reflexivity|]. cbn [bind].
      destruct (negb (g_rawopts g) && negb (g_opts g) && (zlen opts >? 0)); [reflexivity|].
      apply Hopt. intros in1 ->.
      pose proof (conv_args_no_panic g args 0%nat) as Hcnp.
      specialize (Hcnp ltac:(right; right; unfold na, nn, zlen in Ea; lia)).
      destruct (conv_args g args 0) as [in2| |] eqn:Ec; [|reflexivity|discriminate]. cbn [bind].
      apply conv_args_spec in Ec. rewrite Ev in Ec. cbn [skipn] in Ec.
      rewrite firstn_all2 in Ec by (unfold na, nn, zlen in Ea; lia). rewrite app_nil_r in Ec. subst in2.
      rewrite app_nil_r. rewrite app_assoc, pre_slots.
      assert (Hall : map SIn (pre_of g) ++ map SIn (g_normal g) = map SIn ps).
      { rewrite Hps at 1. rewrite app_nil_r. now rewrite !map_app. }
      rewrite Hall, Hvf. unfold reflect_call_ok. rewrite slots_match_map. cbn [negb].
      destruct (process_rets rets); [reflexivity|reflexivity|discriminate].
Qed.

(* the arity check is what keeps the "impossible" branch unreachable *)
Lemma gofn_unchecked_arity_example :
  conv_args (mkGoFn false false false false [GString] None) [VStrOther; VStrOther] 0 = Panic PImpossible.
Proof. reflexivity. Qed.
