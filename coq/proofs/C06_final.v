(* C06 — the vector-level facts plugged into the history-level development:
   closed statements for every bit width b >= 1, and for the width generated
   from the Go source (cb = chunkBits). *)
From Coq Require Import Lia ZArith List Bool Arith.
From verif Require Import lib.Base lib.ListX model.C06 proofs.C06_defs proofs.C06_tree proofs.C06_inv
  proofs.C06_vec proofs.C06_hist proofs.C06_iter.
Open Scope nat_scope.

Section Final.
Variable b : Z.
Hypothesis Hb : (1 <= b)%Z.

Definition VInv := Inv_vv (Inv b).
Definition vabs := abs_vv (abs b).
Definition vabs_out := abs_out (abs b).

Lemma len_abs_b v : Inv b v -> Z.of_nat (length (abs b v)) = count v.
Proof. intros H. pose proof (abs_zlen b v H) as E. unfold zlen in E. exact E. Qed.

Theorem apply_refines_b x o : VInv x ->
  vabs_out (m_apply b x o) = s_apply (vabs x) o /\ out_inv (Inv b) (m_apply b x o).
Proof.
  apply (apply_refines b (Inv b) (abs b) (inv_empty b Hb) len_abs_b (index_ref b Hb) (conj_ref b Hb)
           (assoc_ref b Hb) (pop_ref b Hb) (iter_ref b Hb)).
Qed.

Theorem history_refines_list_b ops :
  map vabs_out (run (m_apply b) [Some (Vec empty)] ops) = run s_apply [Some []] ops.
Proof.
  apply (history_refines_list b (Inv b) (abs b) (inv_empty b Hb) len_abs_b (index_ref b Hb) (conj_ref b Hb)
           (assoc_ref b Hb) (pop_ref b Hb) (iter_ref b Hb)).
  apply st_rel_init. apply inv_empty; exact Hb.
Qed.

(* no operation of any history panics or runs out of fuel *)
Lemma s_apply_total l o : s_apply l o <> XPanic /\ s_apply l o <> XFuel.
Proof.
  destruct o; cbn [s_apply]; unfold of_opt;
  repeat match goal with |- context [match ?x with _ => _ end] => destruct x end; split; discriminate.
Qed.

Lemma run_spec_total ops : forall ss, ~ In XPanic (run s_apply ss ops) /\ ~ In XFuel (run s_apply ss ops).
Proof.
  induction ops as [|o r IH]; intros ss; [simpl; tauto|].
  rewrite run_cons. destruct (IH (fst (step s_apply ss o))) as [I1 I2].
  assert (snd (step s_apply ss o) <> XPanic /\ snd (step s_apply ss o) <> XFuel) as [N1 N2].
  { unfold step. cbn [snd]. destruct (nth_error ss (op_target o)) as [[l|]|]; try (split; discriminate).
    apply s_apply_total. }
  split; intros [H|H]; auto.
Qed.

Lemma abs_out_panic o : vabs_out o = XPanic <-> o = XPanic.
Proof. destruct o; simpl; split; intros H; try discriminate; auto. Qed.
Lemma abs_out_fuel o : vabs_out o = XFuel <-> o = XFuel.
Proof. destruct o; simpl; split; intros H; try discriminate; auto. Qed.

Theorem no_panic_b ops :
  ~ In XPanic (run (m_apply b) [Some (Vec empty)] ops) /\
  ~ In XFuel (run (m_apply b) [Some (Vec empty)] ops).
Proof.
  pose proof (history_refines_list_b ops) as E.
  destruct (run_spec_total ops [Some []]) as [N1 N2]. rewrite <- E in N1, N2.
  split; intros H; [apply N1|apply N2]; apply in_map_iff; eexists; (split; [|exact H]); reflexivity.
Qed.

End Final.

(* ---- the former defect (slice of a slice not tested against the slice):
   the requests of the old counterexample are now rejected, as on plain lists ---- *)
Definition subsub_witness : list op := [OConjRange 0 0 6; OSub 1 2 5; OSub 2 0 4; OSub 2 (-1) 2].

Lemma subsub_bounds_rejected :
  run (m_apply cb) [Some (Vec empty)] subsub_witness
  = [XVec (Vec (mkVec 6 0 ANil (zrange 6 0))); XVec (Sub (mkVec 6 0 ANil (zrange 6 0)) 2 5); XRejected; XRejected].
Proof. vm_compute. reflexivity. Qed.
