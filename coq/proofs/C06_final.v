(* C06 — the vector-level facts plugged into the history-level development:
   closed statements for every bit width b >= 1, and for the width generated
   from the Go source (cb = chunkBits). *)
From Coq Require Import Lia ZArith List Bool Arith.
From verif Require Import lib.Base lib.ListX model.C06 proofs.C06_defs proofs.C06_tree proofs.C06_inv
  proofs.C06_vec proofs.C06_hist proofs.C06_iter.
Open Scope nat_scope.

Section Final.
Variable b : Z.
Hypothesis Hb : (1 <= b)%Z.

Definition VInv := Inv_vv (Inv b).
Definition vabs := abs_vv (abs b).
Definition vabs_out := abs_out (abs b).

Lemma len_abs_b v : Inv b v -> Z.of_nat (length (abs b v)) = count v.
Proof. intros H. pose proof (abs_zlen b v H) as E. unfold zlen in E. exact E. Qed.

Theorem apply_refines_b strict x o : VInv x -> strict = true \/ op_safe x o ->
  vabs_out (m_apply b strict x o) = s_apply (vabs x) o /\ out_inv (Inv b) (m_apply b strict x o).
Proof.
  apply (apply_refines b (Inv b) (abs b) (inv_empty b Hb) len_abs_b (index_ref b Hb) (conj_ref b Hb)
           (assoc_ref b Hb) (pop_ref b Hb) (iter_ref b Hb)).
Qed.

Theorem history_strict_b ops :
  map vabs_out (run (m_apply b true) [Some (Vec empty)] ops) = run s_apply [Some []] ops.
Proof.
  apply (history_refines_list_strict b (Inv b) (abs b) (inv_empty b Hb) len_abs_b (index_ref b Hb) (conj_ref b Hb)
           (assoc_ref b Hb) (pop_ref b Hb) (iter_ref b Hb)).
  apply st_rel_init. apply inv_empty; exact Hb.
Qed.

Theorem history_partial_b ops : safe b [Some (Vec empty)] ops ->
  map vabs_out (run (m_apply b false) [Some (Vec empty)] ops) = run s_apply [Some []] ops.
Proof.
  apply (history_refines_list_partial b (Inv b) (abs b) (inv_empty b Hb) len_abs_b (index_ref b Hb) (conj_ref b Hb)
           (assoc_ref b Hb) (pop_ref b Hb) (iter_ref b Hb)).
  apply st_rel_init. apply inv_empty; exact Hb.
Qed.

(* no operation of any (safe) history panics or runs out of fuel *)
Lemma s_apply_total l o : s_apply l o <> XPanic /\ s_apply l o <> XFuel.
Proof.
  destruct o; cbn [s_apply]; unfold of_opt;
  repeat match goal with |- context [match ?x with _ => _ end] => destruct x end; split; discriminate.
Qed.

Lemma run_spec_total ops : forall ss, ~ In XPanic (run s_apply ss ops) /\ ~ In XFuel (run s_apply ss ops).
Proof.
  induction ops as [|o r IH]; intros ss; [simpl; tauto|].
  rewrite run_cons. destruct (IH (fst (step s_apply ss o))) as [I1 I2].
  assert (snd (step s_apply ss o) <> XPanic /\ snd (step s_apply ss o) <> XFuel) as [N1 N2].
  { unfold step. cbn [snd]. destruct (nth_error ss (op_target o)) as [[l|]|]; try (split; discriminate).
    apply s_apply_total. }
  split; intros [H|H]; auto.
Qed.

Lemma abs_out_panic o : vabs_out o = XPanic <-> o = XPanic.
Proof. destruct o; simpl; split; intros H; try discriminate; auto. Qed.
Lemma abs_out_fuel o : vabs_out o = XFuel <-> o = XFuel.
Proof. destruct o; simpl; split; intros H; try discriminate; auto. Qed.

Theorem no_panic_partial_b ops : safe b [Some (Vec empty)] ops ->
  ~ In XPanic (run (m_apply b false) [Some (Vec empty)] ops) /\
  ~ In XFuel (run (m_apply b false) [Some (Vec empty)] ops).
Proof.
  intros Hs. pose proof (history_partial_b ops Hs) as E.
  destruct (run_spec_total ops [Some []]) as [N1 N2]. rewrite <- E in N1, N2.
  split; intros H; [apply N1|apply N2]; apply in_map_iff; eexists; (split; [|exact H]); reflexivity.
Qed.

End Final.

(* ---- the defect: a slice of a slice is not tested against the slice ---- *)
Definition subsub_witness : list op := [OConjRange 0 0 6; OSub 1 2 5; OSub 2 0 4].

Lemma subsub_bounds_refuted :
  map (vabs_out cb) (run (m_apply cb false) [Some (Vec empty)] subsub_witness)
  <> run s_apply [Some []] subsub_witness.
Proof. vm_compute. discriminate. Qed.
