From verif Require Import lib.Base lib.Utf8 lib.ListX.
From Coq Require Import Arith Lia ZArith ZifyBool ZifyN.
Open Scope nat_scope.
Ltac Zify.zify_post_hook ::= Z.div_mod_to_equations.

(* C01 — facts about lib/Utf8 (Go's utf8.DecodeRune / DecodeLastRune) used by
   the parser proofs. *)
Lemma decode_rune_width s : s <> [] -> 1 <= snd (decode_rune s) <= length s.
Proof.
  intros H. unfold decode_rune.
  repeat (match goal with
          | |- context [match ?x with _ => _ end] => destruct x eqn:?; cbn [snd length]; try lia
          | |- context [if ?x then _ else _] => destruct x eqn:?; cbn [snd length]; try lia
          end).
  all: try congruence.
Qed.

Lemma first_info_spec b sz lo hi : first_info b = Some (sz, lo, hi) ->
  (194 <= b)%N /\ (128 <= lo)%N /\ (hi <= 191)%N /\
  ((sz = 2 /\ (b <= 223)%N) \/ (sz = 3 /\ (224 <= b <= 239)%N /\ (b = 224%N -> (160 <= lo)%N))
   \/ (sz = 4 /\ (240 <= b <= 244)%N /\ (b = 240%N -> (144 <= lo)%N))).
Proof.
  unfold first_info. intros H.
  repeat match type of H with
         | (if ?x then _ else _) = Some _ => destruct x eqn:?; try discriminate H
         end; inversion H; subst; lia.
Qed.

Lemma decode_ascii s r w : decode_rune s = (r, w) -> (r < 128)%N -> exists t, s = r :: t /\ w = 1.
Proof.
  unfold decode_rune, RuneError, is_cont. intros H Hr.
  repeat (match type of H with
          | context [match ?x with _ => _ end] => destruct x eqn:?
          | context [if ?x then _ else _] => destruct x eqn:?
          end; try discriminate);
  inversion H; subst; try (eexists; split; reflexivity); exfalso; try lia;
  match goal with Hq : first_info _ = Some _ |- _ => apply first_info_spec in Hq end; lia.
Qed.

(* ------------------------------------------------------------------------ *)
(* next/backup: decoding backward from the end of a rune decoded forward    *)
(* gives the same width (at every position reached by forward decoding).    *)

(* positions reachable by decoding forward from 0 *)
Inductive boundary (src : bytes) : nat -> Prop :=
| bd0 : boundary src 0
| bdS p : boundary src p -> p < length src ->
          boundary src (p + snd (decode_rune (skipn p src))).

Definition NextBackup (src : bytes) : Prop := forall p, boundary src p -> p < length src ->
  snd (decode_last_rune (firstn (p + snd (decode_rune (skipn p src))) src))
  = snd (decode_rune (skipn p src)).

Definition conts (cs : bytes) : Prop := Forall (fun c => is_cont c = true) cs.

(* a successful multi-byte decode: a lead byte and w-1 continuation bytes, and
   it only depends on those w bytes *)
Lemma decode_multi s r w : decode_rune s = (r, w) -> 2 <= w ->
  exists b0 cs, firstn w s = b0 :: cs /\ length cs = w - 1 /\ rune_start b0 = true
    /\ (128 <= b0)%N /\ conts cs /\ decode_rune (b0 :: cs) = (r, w).
Proof.
  unfold decode_rune. intros H Hw.
  repeat (match type of H with
          | context [match ?x with _ => _ end] => destruct x eqn:?
          | context [if ?x then _ else _] => destruct x eqn:?
          end; try discriminate);
  inversion H; subst; try lia;
  match goal with Hq : first_info _ = Some _ |- _ => pose proof (first_info_spec _ _ _ _ Hq) as FI end;
  cbn [firstn]; eexists; eexists; (split; [reflexivity|]); cbn [length];
  (split; [reflexivity|]); unfold rune_start, conts, is_cont in *;
  (split; [lia|]); (split; [lia|]);
  (split; [repeat constructor; lia|]);
  repeat match goal with Hq : ?x = _ |- context [?x] => rewrite Hq end; reflexivity.
Qed.

(* decoding only looks at the bytes of the rune it returns *)
Lemma decode_extend b0 cs t r : 1 <= length cs ->
  decode_rune (b0 :: cs) = (r, S (length cs)) -> decode_rune (b0 :: cs ++ t) = (r, S (length cs)).
Proof.
  intros Hl H.
  destruct cs as [|c1 [|c2 [|c3 [|c4 cr]]]]; cbn [length app] in *; try lia;
  unfold decode_rune in *;
  repeat (match type of H with
          | context [match ?x with _ => _ end] => destruct x eqn:?
          | context [if ?x then _ else _] => destruct x eqn:?
          end; try discriminate); inversion H; subst; try lia; try reflexivity.
Qed.

(* the backward scan of DecodeLastRune *)
Fixpoint find_start (s : bytes) (lim k start : nat) : nat :=
  match k with
  | O => start
  | S k' =>
    if rune_start (nth start s 0%N) then start
    else match start with
         | O => O
         | S st' => if Nat.ltb st' lim then st' else find_start s lim k' st'
         end
  end.

Lemma find_le s lim : forall k st, find_start s lim k st <= st.
Proof.
  induction k as [|k IH]; intros st; cbn [find_start]; [lia|].
  destruct (rune_start _); [lia|]. destruct st as [|st']; [lia|].
  destruct (Nat.ltb st' lim); [lia|]. specialize (IH st'). lia.
Qed.

Lemma find_hit s lim : forall k st j, j < k -> j <= st -> lim <= st - j ->
  (forall i, i < j -> rune_start (nth (st - i) s 0%N) = false) ->
  rune_start (nth (st - j) s 0%N) = true ->
  find_start s lim k st = st - j.
Proof.
  induction k as [|k IH]; intros st j Hk Hj Hl Hn Hy; [lia|]. cbn [find_start].
  destruct j as [|j].
  - rewrite Nat.sub_0_r in Hy. rewrite Hy. lia.
  - pose proof (Hn 0 ltac:(lia)) as H0. rewrite Nat.sub_0_r in H0. rewrite H0.
    destruct st as [|st']; [lia|].
    destruct (Nat.ltb_spec st' lim); [lia|].
    replace (S st' - S j) with (st' - j) in * by lia.
    apply IH; auto; try lia.
    intros i Hi. specialize (Hn (S i) ltac:(lia)). now replace (S st' - S i) with (st' - i) in Hn by lia.
Qed.

Definition dlr_start (s : bytes) : nat :=
  let n := length s in
  let lim := (n - 4)%nat in
  let start := if Nat.ltb n 2 then 0%nat else find_start s lim 3 (n - 2) in
  if Nat.ltb start lim then lim else start.

Lemma dlr_unfold s : decode_last_rune s =
  match rev s with
  | [] => (RuneError, 0)
  | l :: _ =>
    if (l <? 128)%N then (l, 1) else
    let '(r, w) := decode_rune (skipn (dlr_start s) s) in
    if Nat.eqb (dlr_start s + w) (length s) then (r, w) else (RuneError, 1)
  end.
Proof. reflexivity. Qed.

Lemma decode_rune_width4 s : snd (decode_rune s) <= 4.
Proof.
  unfold decode_rune.
  repeat (match goal with
          | |- context [match ?x with _ => _ end] => destruct x eqn:?; cbn [snd]; try lia
          | |- context [if ?x then _ else _] => destruct x eqn:?; cbn [snd]; try lia
          end).
Qed.

Lemma dlr_start_lt s : s <> [] -> dlr_start s < length s.
Proof.
  intros H. assert (1 <= length s) by (destruct s; [congruence|cbn; lia]).
  unfold dlr_start. destruct (Nat.ltb_spec (length s) 2).
  - destruct (Nat.ltb_spec 0 (length s - 4)); lia.
  - pose proof (find_le s (length s - 4) 3 (length s - 2)).
    destruct (Nat.ltb_spec (find_start s (length s - 4) 3 (length s - 2)) (length s - 4)); lia.
Qed.

Lemma dlr_shape s r w : decode_last_rune s = (r, w) -> s <> [] ->
  w = 1 \/ (2 <= w /\ dlr_start s + w = length s /\ decode_rune (skipn (dlr_start s) s) = (r, w)).
Proof.
  rewrite dlr_unfold. intros H Hs.
  destruct (rev s) as [|l rs] eqn:R.
  { exfalso. apply Hs. rewrite <- (rev_involutive s), R. reflexivity. }
  destruct (l <? 128)%N; [inversion H; auto|].
  pose proof (dlr_start_lt s Hs) as Hlt.
  pose proof (decode_rune_width (skipn (dlr_start s) s)) as W.
  destruct (decode_rune (skipn (dlr_start s) s)) as [r' w'] eqn:D.
  destruct (Nat.eqb_spec (dlr_start s + w') (length s)) as [Q|Q]; inversion H; subst; auto.
  cbn [snd] in W.
  assert (skipn (dlr_start s) s <> []) as Hne.
  { intros E. assert (length (skipn (dlr_start s) s) = 0) by now rewrite E. rewrite skipn_length in H0. lia. }
  specialize (W Hne). destruct (Nat.eq_dec w 1); [auto|right]. repeat split; auto; lia.
Qed.

Lemma conts_nth cs i : conts cs -> i < length cs -> rune_start (nth i cs 0%N) = false.
Proof.
  intros H Hi. unfold conts in H. rewrite Forall_forall in H.
  unfold rune_start. rewrite (H _ (nth_In cs 0%N Hi)). reflexivity.
Qed.

Lemma dlr_valid pre b0 cs r : 1 <= length cs <= 3 -> rune_start b0 = true -> conts cs ->
  decode_rune (b0 :: cs) = (r, S (length cs)) ->
  decode_last_rune (pre ++ b0 :: cs) = (r, S (length cs)).
Proof.
  intros Hl Hb Hc Hd. rewrite dlr_unfold.
  set (s := pre ++ b0 :: cs).
  assert (Ln : length s = length pre + S (length cs)) by (unfold s; rewrite app_length; reflexivity).
  (* the last byte is a continuation byte *)
  destruct (exists_last (l := cs)) as [cs' [cl Ecs]]; [destruct cs; cbn in *; [lia|congruence]|].
  assert (rev s = cl :: rev (pre ++ b0 :: cs')) as R.
  { unfold s. rewrite Ecs. change (b0 :: cs' ++ [cl]) with ((b0 :: cs') ++ [cl]).
    rewrite app_assoc, rev_app_distr. reflexivity. }
  rewrite R.
  assert (is_cont cl = true) as Hcl.
  { unfold conts in Hc. rewrite Forall_forall in Hc. apply Hc. rewrite Ecs. apply in_or_app. right. now left. }
  assert ((cl <? 128)%N = false) as Hcl2 by (unfold is_cont in Hcl; lia).
  rewrite Hcl2.
  (* the scan stops at the lead byte *)
  assert (dlr_start s = length pre) as St.
  { unfold dlr_start. rewrite Ln.
    destruct (Nat.ltb_spec (length pre + S (length cs)) 2); [lia|].
    rewrite (find_hit s _ 3 _ (length cs - 1)); try lia.
    - destruct (Nat.ltb_spec (length pre + S (length cs) - 2 - (length cs - 1))
                             (length pre + S (length cs) - 4)); lia.
    - intros i Hi.
      replace (length pre + S (length cs) - 2 - i) with (length pre + S (length cs - 2 - i)) by lia.
      unfold s. rewrite app_nth2_plus. cbn [nth]. apply conts_nth; auto. lia.
    - replace (length pre + S (length cs) - 2 - (length cs - 1)) with (length pre + 0) by lia.
      unfold s. rewrite app_nth2_plus. exact Hb. }
  rewrite St. unfold s at 1. rewrite skipn_app, skipn_all, Nat.sub_diag. cbn [skipn app].
  rewrite Hd, Ln, Nat.eqb_refl. reflexivity.
Qed.

Lemma nth_skipn {A} (l : list A) p i d : nth i (skipn p l) d = nth (p + i) l d.
Proof.
  revert l. induction p as [|p IH]; intros l; [reflexivity|].
  destruct l as [|x l]; [destruct i; reflexivity|]. cbn. apply IH.
Qed.

Lemma nth_firstn {A} (l : list A) w i d : i < w -> nth i (firstn w l) d = nth i l d.
Proof.
  revert l i. induction w as [|w IH]; intros l i H; [lia|].
  destruct l as [|x l]; [destruct i; reflexivity|]. destruct i as [|i]; [reflexivity|].
  cbn. apply IH. lia.
Qed.

(* a boundary is never strictly inside a validly encoded multi-byte rune *)
Lemma boundary_not_inside src q r' w' : decode_rune (skipn q src) = (r', w') -> 2 <= w' ->
  forall p, boundary src p -> p <= q \/ q + w' <= p.
Proof.
  intros Dq Hw p Hb. induction Hb as [|p Hb IH Hlt]; [lia|].
  destruct IH as [IH|IH]; [|lia].
  destruct (Nat.eq_dec p q) as [->|Ne]; [rewrite Dq; cbn; lia|].
  destruct (decode_rune (skipn p src)) as [r w] eqn:Dp. cbn [snd].
  destruct (le_lt_dec (p + w) q) as [L|L]; [lia|]. exfalso.
  assert (2 <= w) as Hw2 by lia.
  destruct (decode_multi _ _ _ Dp Hw2) as [b0 [cs [F1 [F2 [F3 [F4 [F5 F6]]]]]]].
  destruct (decode_multi _ _ _ Dq Hw) as [b0' [cs' [G1 [G2 [G3 _]]]]].
  (* the byte at q is a lead byte ... *)
  assert (nth q src 0%N = b0') as Nq.
  { replace q with (q + 0) by lia. rewrite <- nth_skipn, <- (nth_firstn _ w'), G1 by lia. reflexivity. }
  (* ... and a continuation byte of the rune at p *)
  assert (exists k, q - p = S k) as [k Hk] by (exists (q - p - 1); lia).
  assert (nth q src 0%N = nth k cs 0%N) as Np.
  { replace q with (p + (q - p)) at 1 by lia. rewrite <- nth_skipn, <- (nth_firstn _ w), F1 by lia.
    rewrite Hk. reflexivity. }
  rewrite Np in Nq. rewrite <- Nq in G3. rewrite conts_nth in G3; [discriminate|auto|lia].
Qed.

Lemma next_backup src : NextBackup src.
Proof.
  intros p Hb Hlt.
  assert (skipn p src <> []) as Hne.
  { intros E. assert (length (skipn p src) = 0) by now rewrite E. rewrite skipn_length in H. lia. }
  pose proof (decode_rune_width _ Hne) as W. rewrite skipn_length in W.
  destruct (decode_rune (skipn p src)) as [r w] eqn:D. cbn [snd] in *.
  assert (firstn (p + w) src = firstn p src ++ firstn w (skipn p src)) as Split.
  { clear. revert src. induction p as [|p IH]; intros src; [reflexivity|].
    destruct src as [|x l]; [now rewrite !firstn_nil|]. cbn. now rewrite IH. }
  assert (length (firstn p src) = p) as Lp by (rewrite firstn_length; lia).
  destruct (le_lt_dec 2 w) as [Hw|Hw].
  - (* a valid multi-byte rune *)
    destruct (decode_multi _ _ _ D Hw) as [b0 [cs [F1 [F2 [F3 [F4 [F5 F6]]]]]]].
    pose proof (decode_rune_width4 (skipn p src)) as W4. rewrite D in W4. cbn [snd] in W4.
    rewrite Split, F1. replace w with (S (length cs)) in * by lia.
    rewrite (dlr_valid _ _ _ r); auto. lia.
  - (* width 1 *)
    assert (w = 1) by lia. subst w.
    destruct (decode_last_rune (firstn (p + 1) src)) as [r' w'] eqn:DL. cbn [snd].
    assert (firstn (p + 1) src <> []) as Hne2.
    { intros E. assert (length (firstn (p + 1) src) = 0) by now rewrite E. rewrite firstn_length in H. lia. }
    destruct (dlr_shape _ _ _ DL Hne2) as [->|[Hw2 [Hs Hd]]]; [reflexivity|]. exfalso.
    rewrite firstn_length in Hs. replace (Nat.min (p + 1) (length src)) with (p + 1) in Hs by lia.
    set (q := dlr_start (firstn (p + 1) src)) in *.
    (* the rune found backward is also there in the whole text *)
    assert (decode_rune (skipn q src) = (r', w')) as Dq.
    { destruct (decode_multi _ _ _ Hd Hw2) as [b0 [cs [F1 [F2 [F3 [F4 [F5 F6]]]]]]].
      assert (skipn q (firstn (p + 1) src) = firstn w' (skipn q src)) as Sk.
      { rewrite firstn_skipn_comm. do 2 f_equal. lia. }
      rewrite Sk, firstn_firstn, Nat.min_id in F1.
      rewrite <- (firstn_skipn w' (skipn q src)), F1.
      replace w' with (S (length cs)) in * by lia.
      change ((b0 :: cs) ++ skipn (S (length cs)) (skipn q src))
        with (b0 :: cs ++ skipn (S (length cs)) (skipn q src)).
      apply decode_extend; [lia|exact F6]. }
    destruct (boundary_not_inside _ _ _ _ Dq Hw2 p Hb); lia.
Qed.
